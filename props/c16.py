"""C16 -- array/pointer indexing, slicing and arithmetic follow the C model.

Shape: history + byte model.  The array under test is created in one of five
ways (MODES): an owned ffi.new('T[n]') or ffi.new('T[]', n) (ASan red zones
directly behind it), a fixed-length view cast into the middle of a larger
malloc'ed block, a slice view x[pre:pre+n] of a larger owned array, or a
from_buffer('T[]') array over the middle of a malloc'ed block (wrongly accepted
accesses show as changes of the neighbouring bytes).  After every operation
the whole backing store is compared with a bytearray model.  addressof /
offsetof go through both FFI implementations (cffi.api.FFI -> typeoffsetof +
rawaddressof, and _cffi_backend.FFI -> ffi_obj.c).
"""
import sys, os, struct
from vlib import gen, core

MEMCHECK_SAMPLE = 4
RULE = ("case = one history of 60 random operations (index read/write with i in -n-2..n+2 and "
        "huge values, given as int or int subclass; slices with/without step and missing bounds, "
        "writes through slices; operations on derived views (slice of the array or of a pointer "
        "into it: index, write, sub-slice, slice assignment, arithmetic, addressof relative to "
        "the view); slices of plain pointers (also negative start, reversed, step, missing "
        "bound); slice assignment from list/tuple/bytes/generator/array cdata of fixed or "
        "variable length type/slice cdata/overlapping slice of the array itself, of right and "
        "wrong length, with an unconvertible item or a raising iterator, or from an array cdata "
        "of another item type (judged against the item-wise assignments); x[i][k] bounds of nested "
        "array elements; pointer +/- in the forms "
        "p+i, i+p, x+i, i+x, p-i; p-q, ptr-array; void*/char* arithmetic; (p+i)[j]; "
        "addressof(x,i[,k|field[,k]]) and offsetof('T[]',i[,...]) through cffi.api.FFI and "
        "_cffi_backend.FFI; owning-pointer indexes incl. new_allocator) over one array of a random "
        "element kind (8 integer kinds, float, double, void*, struct*, structs of size 3/4/6/12, "
        "nested arrays of size 3/4/12) created in one of 5 ways (own fixed, own variable-length, "
        "cast view, slice view, from_buffer) and length 0..12; distinct = distinct (element kind, "
        "n, creation mode, op, arguments) tuples; non-trivial = operation other than an in-range "
        "read")
ASSUMPTIONS = ["offsets are bounded so that i*sizeof(T) stays below 2**62 (beyond that C itself is undefined)",
               "non-integer keys are not generated; slices of a plain pointer are unbounded by design (C "
               "semantics): for them only 'start <= stop, both given, no step, else not accepted' and the view "
               "semantics are demanded, and only inside the backing store",
               "void* arithmetic: only (vp+i)-vp == i is demanded (the statement gives no element size for void)",
               "x[i:j] = <array cdata of another item type> is taken to mean the item-wise assignments "
               "x[i+k] = src[k] (same stored bytes, or an exception when those raise)"]

KINDS = [('char', 'c'), ('signed char', 'b'), ('unsigned char', 'B'), ('short', 'h'), ('unsigned short', 'H'),
         ('int', 'i'), ('unsigned int', 'I'), ('long', 'q'), ('unsigned long long', 'Q'),
         ('float', 'f'), ('double', 'd'), ('void *', 'Q'), ('struct sp', None), ('short[2]', None),
         # element sizes that are not a power of two, and a typed pointer
         ('struct s3', None), ('struct s6', None), ('struct s12', None), ('char[3]', None),
         ('int[3]', None), ('struct sp *', 'Q')]
CDEF = ("struct sp { short a; char b; }; struct s3 { char a[3]; }; "
        "struct s6 { short a; short b; short c; }; struct s12 { int a; char b[5]; };")
# nested array kinds: (item type, item struct format, item count)
NESTED = {'short[2]': ('short', 'h', 2), 'char[3]': ('char', 'c', 3), 'int[3]': ('int', 'i', 3)}
# struct kinds: fields as (name, offset, type, array length or None)
STRUCTS = {'struct sp': [('a', 0, 'short', None), ('b', 2, 'char', None)],
           'struct s3': [('a', 0, 'char', 3)],
           'struct s6': [('a', 0, 'short', None), ('b', 2, 'short', None), ('c', 4, 'short', None)],
           'struct s12': [('a', 0, 'int', None), ('b', 4, 'char', 5)]}
# item types of equal size (sources of another item type for slice assignment)
SAME_SIZE = [['char', 'signed char', 'unsigned char'], ['short', 'unsigned short'],
             ['int', 'unsigned int', 'float', 'struct sp', 'short[2]'],
             ['long', 'unsigned long long', 'double', 'void *', 'struct sp *'],
             ['struct s3', 'char[3]'], ['struct s12', 'int[3]']]
INTS = ['signed char', 'unsigned char', 'short', 'unsigned short', 'int', 'unsigned int', 'long',
        'unsigned long long']
MODES = ['own', 'own', 'ownvar', 'view', 'view', 'sliceview', 'sliceview', 'frombuf', 'gc_ownvar',
         'gc_frombuf']
HUGE = [2 ** 31, 2 ** 63 - 1, 2 ** 63, 2 ** 64, 2 ** 70, -2 ** 63, -2 ** 63 - 1, -2 ** 70]


def generate(ctx):
    rng = ctx.rng('gen')
    nh = ctx.scale(1500, 60000)
    per = 50
    cases = []
    seeds = [rng.getrandbits(48) for _ in range(nh)]
    for i in range(0, nh, per):
        cases.append({'seeds': seeds[i:i + per], 'ops': 60})
    return None, cases


def child_setup(setup, wd):
    from cffi import FFI
    ffi = FFI()
    ffi.cdef(CDEF)
    import _cffi_backend
    return {'ffi': ffi, 'bffi': _cffi_backend.FFI()}


class MyInt(int):
    """an int subclass used as index / offset"""


class H(object):
    """one history"""

    def __init__(self, ffi, rnd, rep, seed, bffi=None):
        self.ffi, self.rnd, self.rep, self.seed = ffi, rnd, rep, seed
        self.bffi = bffi
        self.T, self.fmt = rnd.choice(KINDS)
        self.isptr = self.T.endswith('*')
        self.s = ffi.sizeof(self.T)
        self.n = rnd.choice([0, 1, 2, 3, 5, 8, 12])
        self.mode = rnd.choice(MODES)
        # 'gc_*': the array under test is the ffi.gc() wrapper (possibly a wrapper of a
        # wrapper) of a variable-length array: it carries its own copy of the length
        self.gcwrap = self.mode.startswith('gc_')
        if self.gcwrap:
            self.mode = self.mode[3:]
        self.own = self.mode in ('own', 'ownvar')
        if self.own:
            self.off = 0
            if self.mode == 'own':
                self.arr = ffi.new(self.tarr(self.n))
            else:       # variable-length array type: the length lives in the cdata object
                self.arr = ffi.new(self.tvar(), self.n)
            self.backing = self.arr
            total = self.n * self.s
        else:
            pre, post = rnd.choice([1, 2, 3]), rnd.choice([1, 2, 3])
            self.off = pre * self.s
            total = (pre + self.n + post) * self.s
            if self.mode == 'view':
                self.backing = ffi.new('char[]', total)
                self.arr = ffi.cast(ffi.getctype(ffi.typeof(self.T), '(*)[%d]' % self.n),
                                    self.backing + self.off)[0]
            elif self.mode == 'sliceview':      # derived view: a slice of a larger owned array
                self.backing = ffi.new(self.tarr(pre + self.n + post))
                self.arr = self.backing[pre:pre + self.n]
            else:
                # from_buffer over the middle of a malloc'ed block.  (The exporter is an
                # ffi.buffer object, not a memoryview: a memoryview that still has an export
                # crashes CPython itself when it is cleared as part of cyclic garbage.)
                self.backing = ffi.new('char[]', total)
                self.arr = ffi.from_buffer(
                    self.tvar(), ffi.buffer(self.backing + self.off, self.n * self.s))
        if self.gcwrap:
            for _ in range(rnd.choice([1, 1, 2])):
                self.arr = (bffi or ffi).gc(self.arr, lambda x: None) if rnd.random() < 0.5 \
                    else ffi.gc(self.arr, lambda x: None)
            self.mode = 'gc_' + self.mode
        init = bytes(rnd.getrandbits(8) for _ in range(total))
        if total:
            ffi.buffer(self.backing, total)[:] = init
        self.model = bytearray(init)
        self.total = total
        self.base = int(ffi.cast('uintptr_t', ffi.cast('char *', self.backing))) + self.off
        self.oplog = []

    def tarr(self, n):
        return self.ffi.getctype(self.ffi.typeof(self.T), '[%d]' % n)

    def tvar(self):
        return self.ffi.getctype(self.ffi.typeof(self.T), '[]')

    def tptr(self):
        return self.ffi.getctype(self.ffi.typeof(self.T), '*')

    def addr(self, p):
        return int(self.ffi.cast('uintptr_t', p))

    # --- values -------------------------------------------------------
    def rand_value(self):
        """returns (python value to store, bytes expected)"""
        rnd, T = self.rnd, self.T
        if self.fmt in ('b', 'B', 'h', 'H', 'i', 'I', 'q', 'Q') and not self.isptr:
            size = self.s
            signed = self.fmt.islower()
            lo, hi = gen.int_range(size, signed)
            v = rnd.choice([lo, hi, 0, 1, rnd.randint(lo, hi)])
            return v, struct.pack('<' + self.fmt, v)
        if self.fmt == 'c':
            v = bytes([rnd.randrange(256)])
            return v, v
        if self.fmt == 'f':
            v = struct.unpack('<f', struct.pack('<I', rnd.getrandbits(32) & 0x7f7fffff))[0]
            return v, struct.pack('<f', v)
        if self.fmt == 'd':
            v = rnd.uniform(-1e9, 1e9)
            return v, struct.pack('<d', v)
        if self.isptr:
            a = rnd.getrandbits(64)
            return self.ffi.cast(T, a), struct.pack('<Q', a)
        if T in STRUCTS:
            tmp = self.ffi.new(T + ' *')
            b = bytes(rnd.getrandbits(8) for _ in range(self.s))
            self.ffi.buffer(tmp)[:] = b
            self._keep = tmp
            return tmp[0], b
        if T in NESTED:
            it, f, cnt = NESTED[T]
            if f == 'c':
                b = bytes(rnd.getrandbits(8) for _ in range(cnt))
                return (b if rnd.random() < 0.5 else [b[k:k + 1] for k in range(cnt)]), b
            lo, hi = gen.int_range(struct.calcsize(f), True)
            vs = [rnd.randint(lo, hi) for _ in range(cnt)]
            return vs, struct.pack('<%d%s' % (cnt, f), *vs)

    def decode(self, b):
        T = self.T
        if self.isptr:
            return ('ptr', struct.unpack('<Q', b)[0])
        if self.fmt:
            v = struct.unpack('<' + self.fmt, b)[0]
            if v != v:
                return ('nan',)
            return v
        return ('bytes', bytes(b))

    def observe(self, x):
        ffi = self.ffi
        if isinstance(x, ffi.CData):
            t = ffi.typeof(x)
            if t.kind == 'pointer':
                return ('ptr', int(ffi.cast('uintptr_t', x)))
            if t.kind == 'struct':
                x = ffi.addressof(x)
            return ('bytes', bytes(ffi.buffer(x)))
        if isinstance(x, float) and x != x:
            return ('nan',)
        return x

    def check_mem(self, what):
        if self.total and bytes(self.ffi.buffer(self.backing, self.total)) != bytes(self.model):
            real = bytes(self.ffi.buffer(self.backing, self.total))
            diff = [i for i in range(self.total) if real[i] != self.model[i]]
            inside = all(self.off <= i < self.off + self.n * self.s for i in diff)
            self.bad('memory-differs-from-model' if inside else 'memory-outside-array-changed',
                     '%s: after %s backing bytes differ from the model at offsets %r (array at '
                     '%d..%d)' % (self.desc(), what, diff[:8], self.off, self.off + self.n * self.s))
            self.model[:] = real

    def desc(self):
        return '%s[%d] (%s)' % (self.T, self.n, self.mode)

    def bad(self, mech, msg):
        self.rep.bad(mech, msg + ' | history seed %d, ops so far: %r' %
                     (self.seed, self.oplog[-6:]), self.seed)

    def expect_index_error(self, fn, what, prefix=''):
        try:
            r = fn()
        except IndexError:
            return True
        except OverflowError as e:
            self.bad(prefix + 'overflowerror-instead-of-indexerror', '%s: %s raised OverflowError '
                     '(%s), the statement asks for IndexError' % (self.desc(), what, e))
            return True
        except Exception as e:
            self.bad(prefix + 'wrong-exception', '%s: %s raised %s: %s' %
                     (self.desc(), what, type(e).__name__, e))
            return True
        self.bad(prefix + 'accepted-out-of-range', '%s: %s was accepted (result %r)' %
                 (self.desc(), what, r))
        return False

    def not_accepted(self, fn, what, mech):
        """fn must raise (any exception)"""
        try:
            r = fn()
        except Exception:
            return True
        self.bad(mech, '%s: %s was accepted (result %r)' % (self.desc(), what, r))
        return False

    def ffis(self):
        """the FFI implementations: cffi.api.FFI (typeoffsetof + rawaddressof) and
        _cffi_backend.FFI (ffi_obj.c)"""
        r = [(self.ffi, '')]
        if self.bffi is not None:
            r.append((self.bffi, ':ffi_obj'))
        return r

    def make_cdata_source(self, kind, cnt, raw):
        """array cdata holding `raw` (cnt items): fixed-length type, variable-length type, or
        a slice out of a larger array"""
        ffi, s = self.ffi, self.s
        if kind == 'cdata':
            tmp = ffi.new(self.tarr(cnt))
            if cnt:
                ffi.buffer(tmp)[:] = raw
            return tmp
        if kind == 'cdata_var':
            tmp = ffi.new(self.tvar(), cnt)
            if cnt:
                ffi.buffer(tmp)[:] = raw
            return tmp
        tmp = ffi.new(self.tvar(), cnt + 2)
        if cnt:
            ffi.buffer(tmp)[s:s + cnt * s] = raw
        self._keep2 = tmp
        return tmp[1:1 + cnt]

    # --- derived views --------------------------------------------------
    def check_view(self, sl, m, e0, tag, prefix):
        ffi, s = self.ffi, self.s
        t = ffi.typeof(sl)
        ln = len(sl) if t.kind == 'array' else None
        if ln != m or t.item is not ffi.typeof(self.T):
            self.bad(prefix + 'slice-type', '%s: %s is %r with len %r, expected an array of %d x %s'
                     % (self.desc(), tag, t, ln, m, self.T))
            return False
        a = self.addr(ffi.cast('char *', sl))
        if a != (self.base + e0 * s) % 2 ** 64:
            self.bad(prefix + 'slice-address', '%s: %s starts at %#x, expected %#x' %
                     (self.desc(), tag, a, (self.base + e0 * s) % 2 ** 64))
            return False
        return True

    def view_op(self, sl, m, e0, tag):
        """one random operation on the derived view `sl`, which must behave as an array of
        length m aliasing the elements e0..e0+m-1 (indexes relative to the array under test;
        all of them inside the backing store)"""
        rnd, ffi, s = self.rnd, self.ffi, self.s
        voff, vbase = self.off + e0 * s, self.base + e0 * s
        sub = rnd.choice(['index', 'write', 'slice', 'slice', 'assign', 'assign', 'arith'])
        self.rep.stat('view_' + sub)

        def rix():
            k = rnd.choice([rnd.randint(-2, m + 2), rnd.randint(-2, m + 2), rnd.randint(0, m), m, -1,
                            rnd.choice(HUGE)])
            return MyInt(k) if rnd.random() < 0.08 else k
        if sub == 'index':
            k = rix()
            if 0 <= k < m:
                try:
                    got = self.observe(sl[k])
                except Exception as e:
                    self.bad('view-inrange-index-rejected', '%s: %s[%d] (view of length %d) raised '
                             '%s: %s' % (self.desc(), tag, k, m, type(e).__name__, e))
                else:
                    exp = self.decode(self.model[voff + k * s: voff + (k + 1) * s])
                    if got != exp:
                        self.bad('view-read-value', '%s: %s[%d] = %r, memory holds %r' %
                                 (self.desc(), tag, k, got, exp))
            else:
                self.expect_index_error(lambda: sl[k], '%s[%d] (view of length %d)' % (tag, k, m),
                                        'view-')
            return (sub, k)
        if sub == 'write':
            k = rix()
            v, b = self.rand_value()
            if 0 <= k < m:
                try:
                    sl[k] = v
                except Exception as e:
                    self.bad('view-inrange-index-rejected', '%s: %s[%d] = v (view of length %d) '
                             'raised %s: %s' % (self.desc(), tag, k, m, type(e).__name__, e))
                else:
                    self.model[voff + k * s: voff + (k + 1) * s] = b
            else:
                def f():
                    sl[k] = v
                self.expect_index_error(f, '%s[%d] = v (view of length %d)' % (tag, k, m), 'view-')
            return (sub, k)
        if sub == 'slice':
            a, b_ = rix(), rix()
            if rnd.random() < 0.5:
                a = rnd.randint(0, m)
                b_ = rnd.randint(a, m)
            what = '%s[%d:%d] (view of length %d)' % (tag, a, b_, m)
            if 0 <= a <= b_ <= m:
                try:
                    s2 = sl[a:b_]
                except Exception as e:
                    self.bad('view-valid-slice-rejected', '%s: %s raised %s: %s' %
                             (self.desc(), what, type(e).__name__, e))
                    return (sub, a, b_)
                if self.check_view(s2, b_ - a, e0 + a, what, 'view-'):
                    m2 = b_ - a
                    self.expect_index_error(lambda: s2[m2], '(%s)[%d]' % (what, m2), 'view-')
                    self.expect_index_error(lambda: s2[0:m2 + 1], '(%s)[0:%d]' % (what, m2 + 1),
                                            'view-')
                    self.expect_index_error(lambda: s2[-1:m2], '(%s)[-1:%d]' % (what, m2), 'view-')
                    if m2:
                        k = rnd.randrange(m2)
                        v, bb = self.rand_value()
                        s2[k] = v
                        o = voff + (a + k) * s
                        self.model[o:o + s] = bb
                        if self.observe(sl[a + k]) != self.decode(bb):
                            self.bad('view-slice-not-a-view', '%s: write through (%s)[%d] not seen '
                                     'in %s[%d]' % (self.desc(), what, k, tag, a + k))
                self.rep.stat('view_slices_ok')
            else:
                self.expect_index_error(lambda: sl[a:b_], what, 'view-')
                self.rep.stat('view_slices_rejected')
            return (sub, a, b_)
        if sub == 'assign':
            a = rnd.randint(0, m)
            b_ = rnd.randint(a, m)
            oob = rnd.random() < 0.25
            if oob:
                b_ = m + rnd.randint(1, 2)
            delta = rnd.choice([0, 0, 0, -1, 1, 2])
            cnt = max(0, (b_ - a) + delta)
            vals = [self.rand_value() for _ in range(cnt)]
            raw = b''.join(b for v, b in vals)
            kind = rnd.choice(['list', 'cdata', 'cdata_var', 'cdata_slice'])
            if kind == 'list':
                src = [v for v, b in vals]
            else:
                src = self.make_cdata_source(kind, cnt, raw)
            what = '%s[%d:%d] = <%s of %d> (view of length %d)' % (tag, a, b_, kind, cnt, m)

            def f():
                sl[a:b_] = src
            if oob:
                self.expect_index_error(f, what, 'view-')
                self.rep.stat('view_assign_rejected_bounds')
            elif cnt == b_ - a:
                try:
                    f()
                except Exception as e:
                    self.bad('view-valid-sliceassign-rejected', '%s: %s raised %s: %s' %
                             (self.desc(), what, type(e).__name__, e))
                else:
                    self.model[voff + a * s: voff + b_ * s] = raw
                self.rep.stat('view_assign_ok')
            else:
                try:
                    f()
                except Exception:
                    real = bytes(ffi.buffer(self.backing, self.total))
                    self.model[voff + a * s: voff + b_ * s] = real[voff + a * s: voff + b_ * s]
                else:
                    self.bad('view-sliceassign-wrong-count-accepted', '%s: %s accepted' %
                             (self.desc(), what))
                self.rep.stat('view_assign_wrong_count')
            return (sub, a, b_, cnt, kind)
        # arith: pointer arithmetic / addressof relative to the view
        k = rnd.randint(-3, m + 3)
        form = rnd.choice(['v+k', 'k+v'])
        try:
            q = (sl + k) if form == 'v+k' else (k + sl)
            d = q - sl
        except Exception as e:
            self.bad('view-pointer-arith-raised', '%s: %s with v = %s, k = %d raised %s: %s' %
                     (self.desc(), form, tag, k, type(e).__name__, e))
            return (sub, k, form)
        if self.addr(q) != (vbase + k * s) % 2 ** 64:
            self.bad('view-pointer-add-address', '%s: (%s)+%d is at %#x, expected %#x' %
                     (self.desc(), tag, k, self.addr(q), (vbase + k * s) % 2 ** 64))
        if d != k:
            self.bad('view-pointer-diff', '%s: ((%s)+%d)-(%s) = %r' % (self.desc(), tag, k, tag, d))
        for f, suffix in self.ffis():
            try:
                a = f.addressof(sl, k)
            except Exception as e:
                if 0 <= k <= m:
                    self.bad('view-addressof-raised' + suffix, '%s: addressof(%s, %d) raised %s: %s'
                             % (self.desc(), tag, k, type(e).__name__, e))
                continue
            if a != q or self.addr(a) != (vbase + k * s) % 2 ** 64:
                self.bad('view-addressof-value' + suffix, '%s: addressof(%s, %d) = %r, expected %r'
                         % (self.desc(), tag, k, a, q))
        return (sub, k, form)

    # --- operations ---------------------------------------------------
    def rand_index(self):
        r = self.rnd.random()
        if r < 0.75:
            i = self.rnd.randint(-self.n - 2, self.n + 2)
        elif r < 0.9:
            i = self.rnd.choice(HUGE)
        else:
            i = self.rnd.choice([self.n, -1, self.n - 1, 0])
        if self.rnd.random() < 0.08:
            self.rep.stat('index_int_subclass')
            return MyInt(i)
        return i

    def step(self):
        rnd, ffi, n, s, x = self.rnd, self.ffi, self.n, self.s, self.arr
        op = rnd.choice(['read', 'read', 'write', 'write', 'slice', 'slice', 'slicewrite',
                         'sliceassign', 'sliceassign', 'badslice', 'ptrarith', 'ptrindex',
                         'addressof', 'offsetof', 'ownptr', 'ptrdiff',
                         'subview', 'subview', 'subview', 'ptrslice', 'ptrslice'])
        key = None
        if op == 'read':
            i = self.rand_index()
            key = (op, i)
            if 0 <= i < n:
                try:
                    got = self.observe(x[i])
                except Exception as e:
                    self.bad('inrange-index-rejected', '%s: x[%d] raised %s' %
                             (self.desc(), i, type(e).__name__))
                else:
                    exp = self.decode(self.model[self.off + i * s: self.off + (i + 1) * s])
                    if got != exp:
                        self.bad('read-value', '%s: x[%d] = %r, memory holds %r' %
                                 (self.desc(), i, got, exp))
                    if self.T in NESTED:
                        # x[i] is itself an array (derived view of one element): its own bounds
                        it, f, cnt = NESTED[self.T]
                        isz = struct.calcsize(f)
                        e = x[i]
                        k = rnd.randint(-2, cnt + 2)
                        key = (op, i, k)
                        if 0 <= k < cnt:
                            o = self.off + i * s + k * isz
                            exk = struct.unpack('<' + f, self.model[o:o + isz])[0]
                            if e[k] != exk:
                                self.bad('nested-read-value', '%s: x[%d][%d] = %r, memory holds %r'
                                         % (self.desc(), i, k, e[k], exk))
                        else:
                            self.expect_index_error(lambda: e[k], 'x[%d][%d]' % (i, k), 'nested-')
                        self.expect_index_error(lambda: e[0:cnt + 1], 'x[%d][0:%d]' % (i, cnt + 1),
                                                'nested-')
                        self.rep.stat('nested_element_reads')
                self.rep.stat('reads_ok')
            else:
                self.expect_index_error(lambda: x[i], 'x[%d]' % i)
                self.rep.stat('reads_rejected')
        elif op == 'write':
            i = self.rand_index()
            v, b = self.rand_value()
            key = (op, i)
            if 0 <= i < n:
                try:
                    x[i] = v
                except Exception as e:
                    self.bad('inrange-index-rejected', '%s: x[%d] = ... raised %s: %s' %
                             (self.desc(), i, type(e).__name__, e))
                else:
                    self.model[self.off + i * s: self.off + (i + 1) * s] = b
                self.rep.stat('writes_ok')
            else:
                def f():
                    x[i] = v
                self.expect_index_error(f, 'x[%d] = v' % i)
                self.rep.stat('writes_rejected')
        elif op in ('slice', 'slicewrite'):
            i, j = self.rand_index(), self.rand_index()
            if rnd.random() < 0.3:
                i = rnd.randint(0, n)
                j = rnd.randint(i, n)
            key = (op, i, j)
            if 0 <= i <= j <= n:
                try:
                    sl = x[i:j]
                except Exception as e:
                    self.bad('valid-slice-rejected', '%s: x[%d:%d] raised %s' %
                             (self.desc(), i, j, type(e).__name__))
                    return key, op
                t = ffi.typeof(sl)
                if t.kind != 'array' or len(sl) != j - i or \
                        t.item is not ffi.typeof(self.T):
                    self.bad('slice-type', '%s: x[%d:%d] is %r with len %d' %
                             (self.desc(), i, j, t, len(sl)))
                a = int(ffi.cast('uintptr_t', ffi.cast('char *', sl)))
                if a != (self.base + i * s) % 2 ** 64:
                    self.bad('slice-address', '%s: x[%d:%d] starts at %#x, expected %#x' %
                             (self.desc(), i, j, a, self.base + i * s))
                self.rep.stat('slices_ok')
                if op == 'slicewrite' and j > i:
                    k = rnd.randrange(j - i)
                    v, b = self.rand_value()
                    sl[k] = v
                    self.model[self.off + (i + k) * s: self.off + (i + k + 1) * s] = b
                    self.expect_index_error(lambda: sl[j - i], 'slice[%d] (len %d)' % (j - i, j - i))
                    self.expect_index_error(lambda: sl[-1], 'slice[-1]')
                    got = self.observe(x[i + k])
                    if got != self.decode(b):
                        self.bad('slice-not-a-view', '%s: write through x[%d:%d][%d] not seen in '
                                 'x[%d]' % (self.desc(), i, j, k, i + k))
            else:
                self.expect_index_error(lambda: x[i:j], 'x[%d:%d]' % (i, j))
                self.rep.stat('slices_rejected')
        elif op == 'badslice':
            i = rnd.randint(0, n)
            j = rnd.randint(i, n)
            which = rnd.choice(['step', 'nostart', 'nostop', 'none', 'negstep'])
            key = (op, which, i, j)
            if which == 'step':
                st_ = rnd.choice([1, 2, -1])
                self.expect_index_error(lambda: x[i:j:st_], 'x[%d:%d:%d]' % (i, j, st_))
            elif which == 'negstep':
                self.expect_index_error(lambda: x[j:i:-1], 'x[%d:%d:-1]' % (j, i))
            elif which == 'nostart':
                self.expect_index_error(lambda: x[:j], 'x[:%d]' % j)
            elif which == 'nostop':
                self.expect_index_error(lambda: x[i:], 'x[%d:]' % i)
            else:
                self.expect_index_error(lambda: x[:], 'x[:]')
            self.rep.stat('bad_slices')
        elif op == 'sliceassign':
            i, j = self.rand_index(), self.rand_index()
            if rnd.random() < 0.6 and n:
                i = rnd.randint(0, n)
                j = rnd.randint(i, n)
            valid = 0 <= i <= j <= n
            want = (j - i) if valid else rnd.randint(0, 3)
            delta = rnd.choice([0, 0, 0, -1, 1, 2]) if valid else 0
            cnt = max(0, want + delta)
            srckind = rnd.choice(['list', 'tuple', 'gen', 'cdata', 'cdata_var', 'cdata_slice', 'self',
                                  'self', 'bytes', 'baditem', 'raisegen', 'othertype'])
            if srckind == 'othertype':
                if valid and j > i:
                    self.sliceassign_othertype(i, j)
                    return (op, i, j, 'othertype'), op
                srckind = 'list'
            if self.T == 'char' and rnd.random() < 0.25:
                srckind = 'bytes'
            if srckind == 'bytes' and self.T != 'char':
                srckind = 'list'     # the bytes/bytearray fast path exists for 'char' only
            if srckind == 'self' and cnt > n:
                srckind = 'cdata_var'
            mustfail = False
            if srckind in ('baditem', 'raisegen'):
                if not valid or (srckind == 'baditem' and j == i):
                    srckind = 'tuple'
                else:
                    cnt = j - i         # the right count, but the source fails on the way
                    mustfail = True
            vals = [self.rand_value() for _ in range(cnt)]
            raw = b''.join(b for v, b in vals)
            if srckind == 'bytes':
                src = raw if rnd.random() < 0.5 else bytearray(raw)
                srckind = type(src).__name__
            if srckind in ('bytes', 'bytearray'):
                pass
            elif srckind in ('cdata', 'cdata_var', 'cdata_slice'):
                src = self.make_cdata_source(srckind, cnt, raw)
            elif srckind == 'self':
                # a (possibly overlapping) slice of the array itself
                k = rnd.randint(0, n - cnt)
                src = x[k:k + cnt]
                raw = bytes(self.model[self.off + k * s: self.off + (k + cnt) * s])
                if valid and cnt and k < j and i < k + cnt:
                    self.rep.stat('sliceassign_overlapping_self')
            elif srckind == 'list':
                src = [v for v, b in vals]
            elif srckind == 'tuple':
                src = tuple(v for v, b in vals)
            elif srckind == 'baditem':
                src = [v for v, b in vals]
                src[rnd.randrange(cnt)] = object()
            elif srckind == 'raisegen':
                def g(k=rnd.randint(0, cnt)):
                    for v, b in vals[:k]:
                        yield v
                    raise RuntimeError('c16: iterator failure')
                src = g()
            else:
                src = (v for v, b in vals)
            key = (op, i, j, cnt, srckind)
            self.rep.stat('sliceassign_src_' + srckind)

            def f():
                x[i:j] = src
            if not valid:
                self.expect_index_error(f, 'x[%d:%d] = <%d values>' % (i, j, cnt))
                self.rep.stat('sliceassign_rejected_bounds')
            elif mustfail:
                try:
                    f()
                except Exception:
                    real = bytes(ffi.buffer(self.backing, self.total))
                    self.model[self.off + i * s: self.off + j * s] = \
                        real[self.off + i * s: self.off + j * s]
                else:
                    self.bad('sliceassign-failing-source-accepted', '%s: x[%d:%d] = <%s> raised '
                             'nothing' % (self.desc(), i, j, srckind))
                self.rep.stat('sliceassign_failing_source')
            elif cnt == j - i:
                try:
                    f()
                except Exception as e:
                    self.bad('valid-sliceassign-rejected', '%s: x[%d:%d] = <%s of %d> raised %s: '
                             '%s' % (self.desc(), i, j, srckind, cnt, type(e).__name__, e))
                else:
                    self.model[self.off + i * s: self.off + j * s] = raw
                self.rep.stat('sliceassign_ok')
            else:
                try:
                    f()
                except Exception:
                    # partial writes before the count is known are allowed for
                    # iterables; resynchronise the model inside the slice only
                    real = bytes(ffi.buffer(self.backing, self.total))
                    self.model[self.off + i * s: self.off + j * s] = \
                        real[self.off + i * s: self.off + j * s]
                else:
                    self.bad('sliceassign-wrong-count-accepted', '%s: x[%d:%d] = <%s of %d '
                             'values> accepted' % (self.desc(), i, j, srckind, cnt))
                self.rep.stat('sliceassign_wrong_count')
        elif op == 'subview':
            # a derived view of the array under test; every bound is relative to the view
            i = rnd.randint(0, n)
            j = rnd.randint(i, n)
            m = j - i
            how = rnd.choice(['slice', 'slice', 'ptrslice', 'slice_of_slice'])
            try:
                if how == 'slice':
                    sl = x[i:j]
                    tag = 'x[%d:%d]' % (i, j)
                elif how == 'ptrslice':
                    d = rnd.randint(-2, 2)
                    sl = (x + (i - d))[d:d + m]
                    tag = '(x+%d)[%d:%d]' % (i - d, d, d + m)
                else:
                    a = rnd.randint(0, i)
                    b = rnd.randint(j, n)
                    sl = x[a:b][i - a:j - a]
                    tag = 'x[%d:%d][%d:%d]' % (a, b, i - a, j - a)
            except Exception as e:
                self.bad('valid-slice-rejected', '%s: building the view %s raised %s: %s' %
                         (self.desc(), how, type(e).__name__, e))
                return (op, how, i, j), op
            self.rep.stat('subview_' + how)
            sub = None
            if self.check_view(sl, m, i, tag, 'view-'):
                sub = self.view_op(sl, m, i, tag)
            key = (op, how, i, j, sub)
        elif op == 'ptrslice':
            # slices of a plain pointer: unbounded (C semantics), exercised inside the backing store
            i0 = rnd.randint(0, n)
            p = x + i0
            lo = -(self.off // s) - i0
            hi = lo + self.total // s
            which = rnd.choice(['ok', 'ok', 'ok', 'ok', 'reversed', 'step', 'missing'])
            a = rnd.randint(lo, hi)
            b = rnd.randint(a, hi)
            key = (op, which, i0, a, b)
            self.rep.stat('ptrslice_' + which)
            if which == 'ok':
                tag = '(x+%d)[%d:%d]' % (i0, a, b)
                try:
                    sl = p[a:b]
                except Exception as e:
                    self.bad('pointer-slice-rejected', '%s: %s raised %s: %s' %
                             (self.desc(), tag, type(e).__name__, e))
                    return key, op
                if a < 0:
                    self.rep.stat('ptrslice_negative_start')
                if self.check_view(sl, b - a, i0 + a, tag, 'pointer-'):
                    key = key + (self.view_op(sl, b - a, i0 + a, tag),)
            elif which == 'reversed':
                a2 = b + rnd.randint(1, 3)
                self.not_accepted(lambda: p[a2:b], '(x+%d)[%d:%d] (start > stop)' % (i0, a2, b),
                                  'pointer-slice-invalid-accepted')
            elif which == 'step':
                st_ = rnd.choice([1, 2, -1])
                self.not_accepted(lambda: p[a:b:st_], '(x+%d)[%d:%d:%d]' % (i0, a, b, st_),
                                  'pointer-slice-invalid-accepted')
            else:
                w = rnd.choice(['nostart', 'nostop', 'none'])
                self.not_accepted((lambda: p[:b]) if w == 'nostart' else (lambda: p[a:])
                                  if w == 'nostop' else (lambda: p[:]),
                                  '(x+%d)[..] with %s (a=%d, b=%d)' % (i0, w, a, b),
                                  'pointer-slice-invalid-accepted')
        elif op in ('ptrarith', 'ptrindex', 'ptrdiff'):
            p = x + 0
            lim = (2 ** 62) // max(s, 1)
            i = rnd.choice([rnd.randint(-n - 3, n + 3), rnd.randint(-lim, lim), 0, n])
            form = rnd.choice(['p+i', 'i+p', 'x+i', 'i+x', 'p-(-i)'])
            iv = MyInt(i) if rnd.random() < 0.08 else i
            key = (op, i, form)
            self.rep.stat('ptradd_' + form)
            try:
                if form == 'p+i':
                    q = p + iv
                elif form == 'i+p':
                    q = iv + p
                elif form == 'x+i':
                    q = x + iv
                elif form == 'i+x':
                    q = iv + x
                else:
                    q = p - (-iv)
                d1, d2, d3 = q - p, p - q, q - x       # d3: pointer minus array
                back = q - iv
            except Exception as e:
                self.bad('pointer-arith-raised', '%s: %s / q-p / p-q / q-x / q-i with i = %d raised '
                         '%s: %s' % (self.desc(), form, i, type(e).__name__, e))
                return key, op
            if ffi.typeof(q) is not ffi.typeof(self.tptr()):
                self.bad('pointer-add-type', '%s: %s is a %r' % (self.desc(), form, ffi.typeof(q)))
            a = int(ffi.cast('uintptr_t', q))
            if a != (self.base + i * s) % 2 ** 64:
                self.bad('pointer-add-address', '%s: (%s, i = %d) is at %#x, expected %#x' %
                         (self.desc(), form, i, a, (self.base + i * s) % 2 ** 64))
            if d1 != i or d2 != -i:
                self.bad('pointer-diff', '%s: (p+%d)-p = %r, p-(p+%d) = %r' %
                         (self.desc(), i, d1, i, d2))
            if d3 != i:
                self.bad('pointer-minus-array', '%s: (p+%d)-x = %r' % (self.desc(), i, d3))
            if int(ffi.cast('uintptr_t', back)) != self.base % 2 ** 64:
                self.bad('pointer-sub', '%s: (p+%d)-%d != p' % (self.desc(), i, i))
            if op == 'ptrdiff':
                # byte-sized items: char* (itemsize 1) and void* (gcc extension)
                ib = rnd.choice([rnd.randint(-40, 40), rnd.randint(-2 ** 40, 2 ** 40)])
                for ct in ('char *', 'void *'):
                    vp = ffi.cast(ct, p)
                    try:
                        vq = (vp + ib) if rnd.random() < 0.5 else (ib + vp)
                        dv = vq - vp
                    except Exception as e:
                        self.bad('bytepointer-arith-raised', '%s: <%s>+%d raised %s: %s' %
                                 (self.desc(), ct, ib, type(e).__name__, e))
                        continue
                    if dv != ib:
                        self.bad('bytepointer-diff', '%s: (<%s>+%d) - <%s> = %r' %
                                 (self.desc(), ct, ib, ct, dv))
                    if ct == 'char *' and self.addr(vq) != (self.base + ib) % 2 ** 64:
                        self.bad('bytepointer-add-address', '%s: <char *>+%d is at %#x, expected '
                                 '%#x' % (self.desc(), ib, self.addr(vq), (self.base + ib) % 2 ** 64))
                self.rep.stat('byte_pointer_ops')
            if op == 'ptrindex' and n:
                j = rnd.randint(-3, n + 3)
                tgt = i + j
                for f, suffix in self.ffis():
                    aj = int(ffi.cast('uintptr_t', f.addressof(q, j)))
                    if aj != (self.base + tgt * s) % 2 ** 64:
                        self.bad('pointer-index-address' + suffix, '%s: &(p+%d)[%d] at %#x, '
                                 'expected %#x' % (self.desc(), i, j, aj,
                                                   (self.base + tgt * s) % 2 ** 64))
                lo = -(self.off // s) if s else 0
                hi = lo + self.total // s if s else 0
                if lo <= tgt < hi:
                    got = self.observe(q[j])
                    o = self.off + tgt * s
                    exp = self.decode(self.model[o:o + s])
                    if got != exp:
                        self.bad('pointer-index-value', '%s: (p+%d)[%d] = %r, memory holds %r' %
                                 (self.desc(), i, j, got, exp))
                    if 0 <= tgt < n and self.observe(p[tgt]) != got:
                        self.bad('pointer-index-alias', '%s: (p+%d)[%d] != p[%d]' %
                                 (self.desc(), i, j, tgt))
                    v, b = self.rand_value()
                    q[j] = v
                    self.model[o:o + s] = b
            self.rep.stat('pointer_ops')
        elif op == 'addressof':
            i = rnd.randint(0, n) if rnd.random() < 0.8 else rnd.randint(-3, n + 3)
            key = (op, i)
            for f, suffix in self.ffis():
                try:
                    a = f.addressof(x, i)
                except Exception as e:
                    if 0 <= i <= n:
                        self.bad('addressof-raised' + suffix, '%s: addressof(x, %d) raised %s: %s' %
                                 (self.desc(), i, type(e).__name__, e))
                    continue
                if a != x + i or int(ffi.cast('uintptr_t', a)) != (self.base + i * s) % 2 ** 64:
                    self.bad('addressof-value' + suffix, '%s: addressof(x, %d) = %r, x+%d = %r' %
                             (self.desc(), i, a, i, x + i))
                if ffi.typeof(a) is not ffi.typeof(self.tptr()):
                    self.bad('addressof-type' + suffix, '%s: addressof(x, %d) is a %r' %
                             (self.desc(), i, ffi.typeof(a)))
            path = self.rand_path()
            if path is not None:
                # the C model for &x[i]<path>: x + i, plus the offset of <path> inside one item
                args, inner, inrange = path
                key = (op, i) + tuple(args)
                for f, suffix in self.ffis():
                    try:
                        a = f.addressof(x, i, *args)
                    except Exception as e:
                        if 0 <= i <= n and inrange:
                            self.bad('addressof-raised' + suffix, '%s: addressof(x, %d, %r) raised '
                                     '%s: %s' % (self.desc(), i, args, type(e).__name__, e))
                        continue
                    if self.addr(a) != (self.base + i * s + inner) % 2 ** 64:
                        self.bad('addressof-nested-value' + suffix, '%s: addressof(x, %d, %r) is at '
                                 '%#x, expected %#x' % (self.desc(), i, args, self.addr(a),
                                                        (self.base + i * s + inner) % 2 ** 64))
                self.rep.stat('addressof_nested')
            self.rep.stat('addressof')
        elif op == 'offsetof':
            lim = (2 ** 63) // max(s, 1)
            i = rnd.choice([0, 1, n, rnd.randint(0, 10 ** 6), rnd.randint(-5, 5),
                            lim + rnd.randint(-2, 2), -lim + rnd.randint(-2, 2),
                            rnd.randint(-lim, lim), 2 ** 62, -2 ** 62, 2 ** 63 - 1, -2 ** 63])
            key = (op, i)
            specs = [(ffi, '', ffi.getctype(ffi.typeof(self.T), '[]')),
                     (ffi, '', ffi.typeof(ffi.getctype(ffi.typeof(self.T), '[]'))),
                     (ffi, '', ffi.getctype(ffi.typeof(self.T), '[%d]' % max(n, 1))),
                     (ffi, '', ffi.getctype(ffi.typeof(self.T), '*'))]
            if self.bffi is not None:
                specs += [(self.bffi, ':ffi_obj', ffi.typeof(self.tvar())),
                          (self.bffi, ':ffi_obj', ffi.typeof(self.tarr(max(n, 1)))),
                          (self.bffi, ':ffi_obj', ffi.typeof(self.tptr()))]
                if 'struct' not in self.T:      # the C-level parser knows no cdef'ed names
                    specs.append((self.bffi, ':ffi_obj', self.tvar()))
            for f, suffix, spec in specs:
                try:
                    o = f.offsetof(spec, i)
                except OverflowError:
                    if -2 ** 63 <= i * s < 2 ** 63:
                        self.bad('offsetof-raised' + suffix, 'offsetof(%r, %d) raised OverflowError '
                                 'although the offset %d fits' % (spec, i, i * s))
                    self.rep.stat('offsetof_overflow_rejected')
                    continue
                except Exception as e:
                    if -2 ** 63 <= i < 2 ** 63:     # an index that is not even a ssize_t may
                        self.bad('offsetof-raised' + suffix, 'offsetof(%r, %d) raised %s' %  # raise anything
                                 (spec, i, type(e).__name__))
                    continue
                if o != i * s:
                    self.bad('offsetof-value' + suffix, 'offsetof(%r, %d) = %d, expected %d' %
                             (spec, i, o, i * s))
            path = self.rand_path() if abs(i) <= 10 ** 6 else None
            if path is not None:
                args, inner, inrange = path
                key = (op, i) + tuple(args)
                for f, suffix, spec in specs:
                    try:
                        o = f.offsetof(spec, i, *args)
                    except Exception as e:
                        if inrange:
                            self.bad('offsetof-raised' + suffix, 'offsetof(%r, %d, %r) raised %s: %s'
                                     % (spec, i, args, type(e).__name__, e))
                        continue
                    if o != i * s + inner:
                        self.bad('offsetof-nested-value' + suffix, 'offsetof(%r, %d, %r) = %d, '
                                 'expected %d' % (spec, i, args, o, i * s + inner))
                self.rep.stat('offsetof_nested')
            self.rep.stat('offsetof')
        elif op == 'ownptr':
            how = rnd.choice(['new', 'new', 'new_allocator', 'ffi_obj.new'])
            if how == 'ffi_obj.new' and self.bffi is None:
                how = 'new'
            if how == 'new':
                q = ffi.new(self.tptr())
            elif how == 'new_allocator':
                q = ffi.new_allocator(should_clear_after_alloc=False)(self.tptr())
            else:
                q = self.bffi.new(ffi.typeof(self.tptr()))
            self.rep.stat('ownptr_' + how)
            i = rnd.choice([0, 0, 1, -1, 2, rnd.choice(HUGE)])
            if rnd.random() < 0.08:
                i = MyInt(i)
            key = (op, i, how)
            if i == 0:
                v, b = self.rand_value()
                try:
                    q[i] = v
                    got = self.observe(q[i])
                except Exception as e:
                    self.bad('ownptr-index0-rejected', '%s * (%s): q[0] raised %s: %s' %
                             (self.T, how, type(e).__name__, e))
                    return key, op
                if bytes(ffi.buffer(q)) != b:
                    self.bad('ownptr-write', '%s *: q[0] = v stored %s, expected %s' %
                             (self.T, bytes(ffi.buffer(q)).hex(), b.hex()))
                if got != self.decode(b):
                    self.bad('ownptr-read', '%s *: q[0] reads %r after storing %r' %
                             (self.T, got, self.decode(b)))
            else:
                self.expect_index_error(lambda: q[i], 'owning pointer q[%d]' % i)

                def f():
                    v, b = self.rand_value()
                    q[i] = v
                self.expect_index_error(f, 'owning pointer q[%d] = v' % i)
            self.rep.stat('owning_pointer_ops')
        return key, op

    def sliceassign_othertype(self, i, j):
        """x[i:j] = <array cdata of another item type>: no raw-copy shortcut applies, so it must
        behave exactly like the item-wise assignments x[i+k] = src[k] (same bytes, or raise when
        those raise)"""
        rnd, ffi, s, x = self.rnd, self.ffi, self.s, self.arr
        cnt = j - i
        cands = [u for grp in SAME_SIZE if self.T in grp for u in grp if u != self.T]
        if self.T in INTS and (not cands or rnd.random() < 0.3):
            cands = [u for u in INTS if u != self.T]
        if not cands:
            cands = ['int']
        U = rnd.choice(cands)
        tU = ffi.getctype(ffi.typeof(U), '[%d]' % cnt)
        src = ffi.new(tU)
        raw = bytes(rnd.getrandbits(8) for _ in range(ffi.sizeof(tU)))
        if rnd.random() < 0.5:       # small values convert between more types
            raw = bytes((c & 0x3f) if (k % ffi.sizeof(U)) == 0 else 0 for k, c in enumerate(raw))
        ffi.buffer(src)[:] = raw
        scratch = ffi.new(self.tarr(cnt))
        ffi.buffer(scratch)[:] = bytes(self.model[self.off + i * s: self.off + j * s])
        ref_exc = None
        try:
            for k in range(cnt):
                scratch[k] = src[k]
        except Exception as e:
            ref_exc = '%s: %s' % (type(e).__name__, e)    # (not the exception: no reference cycle)
        what = 'x[%d:%d] = <cdata %s>' % (i, j, tU)
        self.rep.stat('sliceassign_src_othertype')
        try:
            x[i:j] = src
        except Exception as e:
            if ref_exc is None:
                self.bad('sliceassign-othertype-rejected', '%s: %s raised %s: %s although the '
                         'item-wise assignments are accepted' % (self.desc(), what,
                                                                 type(e).__name__, e))
            else:
                self.rep.stat('sliceassign_othertype_both_raise')
            real = bytes(ffi.buffer(self.backing, self.total))
            self.model[self.off + i * s: self.off + j * s] = real[self.off + i * s: self.off + j * s]
            return
        if ref_exc is not None:
            self.bad('sliceassign-othertype-accepted', '%s: %s accepted although the item-wise '
                     'assignment raises %s' % (self.desc(), what, ref_exc))
            real = bytes(ffi.buffer(self.backing, self.total))
            self.model[self.off + i * s: self.off + j * s] = real[self.off + i * s: self.off + j * s]
            return
        self.rep.stat('sliceassign_othertype_both_accept')
        exp = bytes(ffi.buffer(scratch))
        real = bytes(ffi.buffer(self.backing, self.total))[self.off + i * s: self.off + j * s]
        if real != exp:
            self.bad('sliceassign-othertype-differs-from-itemwise', '%s: %s stored %s, the '
                     'item-wise assignments store %s' % (self.desc(), what, real.hex(), exp.hex()))
        self.model[self.off + i * s: self.off + j * s] = real

    def rand_path(self):
        """for nested element kinds: (extra addressof/offsetof arguments after the array index,
        expected offset inside one element, all indexes inside their arrays)"""
        rnd, T = self.rnd, self.T
        if T in NESTED:
            it, f, cnt = NESTED[T]
            k = rnd.choice([rnd.randint(0, cnt), rnd.randint(-2, cnt + 2)])
            return [k], k * struct.calcsize(f), 0 <= k <= cnt
        if T in STRUCTS:
            name, ofs, ft, alen = rnd.choice(STRUCTS[T])
            if alen is None or rnd.random() < 0.3:
                return [name], ofs, True
            k = rnd.choice([rnd.randint(0, alen), rnd.randint(-2, alen + 2)])
            return [name, k], ofs + k * self.ffi.sizeof(ft), 0 <= k <= alen
        return None


ZCDEF = ("typedef int item0[0]; struct zs { char c; item0 a[9]; short d; item0 b[5]; }; "
         "struct zn { long l; struct { item0 q[3]; char r; } in; };")


def zero_size_probe(st, rnd, rep, seed):
    """indexes into arrays of zero-sized items: every element sits at the array's own
    address, bounds are still those of the array, nothing may crash"""
    if 'zffi' not in st:
        from cffi import FFI
        z = FFI()
        z.cdef(ZCDEF)
        st['zffi'] = z
    z, b = st['zffi'], st.get('bffi')
    addr = lambda p: int(z.cast('uintptr_t', p))
    n = rnd.choice([1, 4, 9])
    arr = z.new('item0[%d]' % n) if rnd.random() < 0.5 else z.new('item0[]', n)
    s = z.new('struct zs *')
    sn = z.new('struct zn *')
    k = rnd.choice([0, 1, 2, n - 1, rnd.randrange(9)])
    big = rnd.choice([2 ** 31, 2 ** 40, 2 ** 62, 2 ** 63 - 1])

    def bad(mech, msg):
        rep.bad('zero-size-items:' + mech, msg + ' | seed %d' % seed, seed)
    for tag, f in (('api', z), ('ffi_obj', b)):
        if f is None:
            continue
        probes = [
            ('addressof(struct, field, k)', lambda: addr(f.addressof(s, 'a', k)),
             addr(s) + z.offsetof('struct zs', 'a')),
            ('addressof(struct, field2, k)', lambda: addr(f.addressof(s, 'b', k % 5)),
             addr(s) + z.offsetof('struct zs', 'b')),
            ('addressof(nested, k)', lambda: addr(f.addressof(sn, 'in', 'q', k % 3)),
             addr(sn) + z.offsetof('struct zn', 'in')),
            ('addressof(array, k)', lambda: addr(f.addressof(arr, k)), addr(arr)),
            ('addressof(array, big)', lambda: addr(f.addressof(arr, big)), addr(arr)),
        ]
        if tag == 'api':
            probes += [
                ('offsetof(struct, field, k)', lambda: z.offsetof('struct zs', 'a', k),
                 z.offsetof('struct zs', 'a')),
                ('offsetof(item0[], big)', lambda: z.offsetof('item0[]', big), 0),
                ('offsetof(item0[], -big)', lambda: z.offsetof('item0[]', -big), 0),
            ]
        for what, fn, want in probes:
            rep.stat('zero_size_probes')
            rep.case(('zero-size', tag, what, n, k))
            try:
                got = fn()
            except OverflowError:
                rep.stat('zero_size_overflowerror')
                continue
            except Exception as e:
                bad('raised:' + tag, '%s raised %s: %s' % (what, type(e).__name__, str(e)[:100]))
                continue
            if got != want:
                bad('address:' + tag, '%s = %#x, expected %#x (n=%d k=%d)' % (what, got, want, n, k))
    for i in (k, n, n + 3, -1):
        rep.stat('zero_size_probes')
        try:
            a = addr(arr[i])
            ok = True
        except IndexError:
            ok = False
        except Exception as e:
            bad('index-raised', 'arr[%d] (n=%d) raised %s' % (i, n, type(e).__name__))
            continue
        if ok != (0 <= i < n):
            bad('index-bounds', 'arr[%d] on an array of %d zero-sized items: %s' %
                (i, n, 'accepted' if ok else 'IndexError'))
        elif ok and a != addr(arr):
            bad('index-address', 'arr[%d] at %#x, the array is at %#x' % (i, a, addr(arr)))


def child_case(st, case):
    import random
    ffi = st['ffi']
    rep = core.ChildRep()
    for seed in case['seeds']:
        rnd = random.Random(seed)
        if rnd.random() < 0.2:
            zero_size_probe(st, random.Random(seed ^ 0x5a5a), rep, seed)
        h = H(ffi, rnd, rep, seed, st.get('bffi'))
        rep.stat('histories')
        rep.stat('mode_' + h.mode)
        rep.stat('kind_' + h.T.replace(' ', '_'))
        for _ in range(case['ops']):
            try:
                key, op = h.step()
            except Exception as e:
                import traceback
                h.bad('harness-exception', traceback.format_exc()[-900:])
                break
            h.oplog.append(key)
            h.check_mem(repr(key))
            rep.case((h.T, h.n, h.mode, key), nontrivial=op != 'read',
                     sample={'array': h.desc(), 'op': repr(key)})
    return rep.result()


def judge(ctx, setup, case, obs):
    core.absorb(ctx, case, obs, lambda seed: {'seeds': [seed], 'ops': case['ops']})
