"""C21 -- ownership, destructors and handles over any history.

Stateful model: random histories of create / alias / gc-wrap / release / with /
drop / gc.collect over ffi.new objects, ffi.gc wrappers (chains, cycles through
the destructor closure, gc(p, None)), new_allocator allocations, from_buffer
exports and handles.  The model knows which objects are reachable; destructor
and free callbacks are monitored at the moment they run and counted.
ASan decides use-after-free / double free.
"""
import sys, os, gc, weakref
from vlib import core

RULE = ("case = one history of 40 random operations over up to ~12 live objects: ffi.new structs/"
        "arrays, p[0] aliases, ffi.gc wrappers (also of wrappers, with destructor closures that "
        "reference their own wrapper), ffi.gc(w, None), ffi.release / with, new_allocator "
        "allocations (should_clear on/off), from_buffer on a resizable bytearray subclass, "
        "new_handle/from_handle; gc.collect() after every step on half of the histories; distinct "
        "= (operation, object kind, model state summary) tuples; non-trivial = every operation "
        "except a plain gc.collect()")
ASSUMPTIONS = ["reachability is modelled from the references the harness itself holds (names) plus cffi's documented keep-alive edges (alias -> owner, gc wrapper -> original, from_buffer -> source)",
               "CPython reference counting: an unreachable acyclic object is finalized at once, a cyclic one at the next gc.collect()"]


def generate(ctx):
    rng = ctx.rng('gen')
    nh = ctx.scale(500, 30000)
    per = 100
    seeds = [rng.getrandbits(48) for _ in range(nh)]
    return None, [{'seeds': seeds[i:i + per], 'ops': 40} for i in range(0, nh, per)]


def child_setup(setup, wd):
    from cffi import FFI
    ffi = FFI()
    ffi.cdef("struct s { int a; long b; char c[8]; };")
    return {'ffi': ffi}


class BA(bytearray):
    pass


class Obj(object):
    """model record of one object"""
    def __init__(self, oid, kind, parent=None):
        self.oid, self.kind, self.parent = oid, kind, parent
        self.named = True          # the harness holds a reference
        self.destructor = None     # 'on' | 'off' (gc None) | None
        self.dcount = 0
        self.released = False
        self.cyclic = False
        self.children = []         # model objects that keep this one alive


class H(object):
    def __init__(self, ffi, rnd, rep, seed, ops):
        self.ffi, self.rnd, self.rep, self.seed = ffi, rnd, rep, seed
        self.objs = {}      # oid -> Obj
        self.refs = {}      # oid -> real object (strong ref held by the harness)
        self.next = 0
        self.collect_each = rnd.random() < 0.5
        self.oplog = []
        self.allocs = {}    # address -> [backing cdata, freed count, alive]
        self.alloc_should_clear = rnd.random() < 0.5
        self.allocator = ffi.new_allocator(self.my_alloc, self.my_free,
                                           should_clear_after_alloc=self.alloc_should_clear)
        self.freed = {}     # address -> count
        self.handles = {}   # oid -> (python object)
        self.in_release = None

    def bad(self, mech, msg):
        self.rep.bad(mech, '%s | history seed %d, last ops %r' % (msg, self.seed, self.oplog[-6:]),
                     self.seed)

    # ---- allocator callbacks ------------------------------------------
    def my_alloc(self, size):
        raw = self.ffi.new('char[]', size + 1)
        if size:
            self.ffi.buffer(raw)[0:size] = b'\xdd' * size
        addr = int(self.ffi.cast('uintptr_t', raw))
        self.allocs[addr] = raw
        self.freed[addr] = 0
        return raw

    def my_free(self, ptr):
        addr = int(self.ffi.cast('uintptr_t', ptr))
        if addr not in self.freed:
            self.bad('allocator-free-unknown-pointer', 'free called with %r which alloc never '
                     'returned' % (ptr,))
            return
        self.freed[addr] += 1
        if self.freed[addr] > 1:
            self.bad('allocator-free-twice', 'free function ran %d times for one allocation' %
                     self.freed[addr])
        o = self.by_alloc_addr.get(addr)
        if o is not None and self.alive(o) and self.in_release is not o:
            self.bad('allocator-free-while-alive', 'free function ran while the allocation %d is '
                     'still reachable' % o.oid)

    # ---- model ---------------------------------------------------------
    def alive(self, o):
        if o.named:
            return True
        # a released wrapper has dropped its reference to the original
        return any(not c.released and self.alive(c) for c in o.children)

    def new_obj(self, kind, real, parent=None):
        o = Obj(self.next, kind, parent)
        self.next += 1
        self.objs[o.oid] = o
        self.refs[o.oid] = real
        if parent is not None:
            parent.children.append(o)
        return o

    def make_destructor(self, o, cyclic):
        h = self

        def destructor(arg, _cycle=[]):
            o.dcount += 1
            if o.dcount > 1:
                h.bad('destructor-ran-twice', 'ffi.gc destructor of wrapper %d ran %d times' %
                      (o.oid, o.dcount))
            if o.destructor == 'off':
                h.bad('destructor-after-gc-none', 'destructor of wrapper %d ran after '
                      'ffi.gc(w, None)' % o.oid)
            if h.alive(o) and h.in_release is not o:
                h.bad('destructor-while-alive', 'destructor of wrapper %d ran while it is still '
                      'reachable' % o.oid)
            try:
                addr = int(h.ffi.cast('uintptr_t', arg))
            except Exception as e:
                h.bad('destructor-argument', 'destructor got %r' % (arg,))
                return
            if addr != o.orig_addr:
                h.bad('destructor-argument', 'destructor of wrapper %d got address %#x, wrapped '
                      'object is at %#x' % (o.oid, addr, o.orig_addr))
        if cyclic:
            destructor.__defaults__[0].append(None)     # placeholder, set to wrapper later
        return destructor

    by_alloc_addr = None

    def pick(self, kinds=None, named=True):
        c = [o for o in self.objs.values() if o.named and not o.released and
             (kinds is None or o.kind in kinds)]
        return self.rnd.choice(c) if c else None

    # ---- operations ----------------------------------------------------
    def step(self):
        rnd, ffi = self.rnd, self.ffi
        if self.by_alloc_addr is None:
            self.by_alloc_addr = {}
        op = rnd.choice(['new', 'new', 'alias', 'gcwrap', 'gcwrap', 'gcchain', 'gcnone',
                         'release', 'with', 'drop', 'drop', 'drop', 'collect', 'alloc', 'alloc',
                         'frombuf', 'frombuf_fail', 'resize', 'handle', 'fromhandle', 'rerelease',
                         'useafter'])
        key = (op,)
        if op == 'new':
            kind = rnd.choice(['struct', 'array'])
            real = ffi.new('struct s *') if kind == 'struct' else ffi.new('int[4]')
            o = self.new_obj('own_' + kind, real)
            self.stamp(o)
        elif op == 'alias':
            # only ffi.new('struct *') promises that p[0] keeps the memory alive
            b = self.pick(('own_struct',))
            if b is None:
                return ('alias-skip',)
            real = self.refs[b.oid][0]
            o = self.new_obj('alias', real, parent=None)
            b.children.append(o)       # the alias keeps the owner alive
            o.base = b
        elif op in ('gcwrap', 'gcchain'):
            b = self.pick(('own_struct', 'own_array', 'alloc_struct', 'gcwrapper')
                          if op == 'gcchain' else ('own_struct', 'own_array'))
            if b is None:
                return (op + '-skip',)
            cyclic = rnd.random() < 0.35
            o = Obj(self.next, 'gcwrapper')
            self.next += 1
            d = self.make_destructor(o, cyclic)
            size = rnd.choice([0, 0, 4096])
            real = ffi.gc(self.refs[b.oid], d, size) if size else ffi.gc(self.refs[b.oid], d)
            if cyclic:
                d.__defaults__[0][0] = real         # reference cycle wrapper -> destructor -> wrapper
            o.cyclic = cyclic
            o.destructor = 'on'
            o.orig_addr = int(ffi.cast('uintptr_t', self.refs[b.oid]))
            self.objs[o.oid] = o
            self.refs[o.oid] = real
            b.children.append(o)                    # wrapper keeps the original alive
            key = (op, b.kind, cyclic)
        elif op == 'gcnone':
            w = self.pick(('gcwrapper',))
            if w is None or w.dcount:
                return ('gcnone-skip',)
            ffi.gc(self.refs[w.oid], None)
            w.destructor = 'off'
        elif op in ('release', 'with', 'rerelease'):
            kinds = ('gcwrapper', 'own_struct', 'own_array', 'alloc_struct', 'alloc_array',
                     'frombuf')
            if op == 'rerelease':
                c = [o for o in self.objs.values() if o.named and o.released]
                w = rnd.choice(c) if c else None
            else:
                w = self.pick(kinds)
            if w is None:
                return (op + '-skip',)
            if any(c.named or self.alive(c) for c in w.children):
                # releasing memory that a live alias / wrapper still uses is the
                # user's error; not generated
                return (op + '-skip-has-dependents',)
            key = (op, w.kind)
            before = w.dcount
            self.in_release = w
            w.released = True      # from now on it keeps nothing alive
            try:
                if op == 'with':
                    with self.refs[w.oid]:
                        pass
                else:
                    ffi.release(self.refs[w.oid])
            except Exception as e:
                self.bad('release-raised', '%s of a %s raised %s: %s' %
                         (op, w.kind, type(e).__name__, e))
            self.in_release = None
            if w.kind == 'gcwrapper' and w.destructor == 'on':
                exp = 1
                if w.dcount != exp:
                    self.bad('destructor-not-run-at-release' if w.dcount < exp else
                             'destructor-ran-twice', '%s of wrapper %d: destructor count %d '
                             '(before %d)' % (op, w.oid, w.dcount, before))
            if w.kind.startswith('alloc'):
                if self.freed.get(w.addr) != 1:
                    self.bad('allocator-free-count', '%s of an allocator object: free ran %r '
                             'times' % (op, self.freed.get(w.addr)))
            if w.kind == 'frombuf':
                self.check_resize(w, True, 'after ' + op)
            w.released = True
        elif op == 'drop':
            c = [o for o in self.objs.values() if o.named]
            if not c:
                return ('drop-skip',)
            o = rnd.choice(c)
            key = (op, o.kind, o.cyclic)
            o.named = False
            del self.refs[o.oid]
            self.after_drop()
        elif op == 'collect':
            gc.collect()
            self.after_collect()
        elif op == 'alloc':
            kind = rnd.choice(['struct', 'array'])
            n0 = len(self.freed)
            real = self.allocator('struct s *') if kind == 'struct' else self.allocator('int[]', 5)
            o = self.new_obj('alloc_' + kind, real)
            o.addr = int(ffi.cast('uintptr_t', real))
            if o.addr not in self.freed:
                self.bad('allocator-address', 'allocator object does not live in the memory '
                         'returned by the alloc function')
            self.by_alloc_addr[o.addr] = o
            b = bytes(ffi.buffer(real))
            if self.alloc_should_clear and b.strip(b'\0'):
                self.bad('allocator-not-cleared', 'should_clear_after_alloc=True but memory is '
                         + b.hex())
            if not self.alloc_should_clear and b != b'\xdd' * len(b):
                self.bad('allocator-cleared', 'should_clear_after_alloc=False but memory was '
                         'modified: ' + b.hex())
            key = (op, kind, self.alloc_should_clear)
        elif op == 'frombuf':
            src = BA(b'0123456789abcdef')
            real = ffi.from_buffer(src)
            o = self.new_obj('frombuf', real)
            o.src = src
            o.src_ref = weakref.ref(src)
            self.check_resize(o, False, 'right after from_buffer')
        elif op == 'frombuf_fail':
            # a failing from_buffer() must not leave the source export-locked
            # or referenced
            src = BA(b'0123456789')
            r = weakref.ref(src)
            T = rnd.choice(['int[64]', 'char[11]', 'long long[2]'])
            try:
                ffi.from_buffer(T, src)
                self.bad('from_buffer-too-small-accepted', "from_buffer(%r, <10 bytes>) accepted" % T)
            except ValueError:
                pass
            try:
                src.append(1)
            except BufferError:
                self.bad('export-lock-not-released', 'source of a *failed* from_buffer(%r) is '
                         'still export-locked' % T)
            del src
            if r() is not None:
                gc.collect()
                if r() is not None:
                    self.bad('from_buffer-source-leaked', 'source of a failed from_buffer(%r) is '
                             'kept alive' % T)
            key = (op, T)
        elif op == 'resize':
            w = self.pick(('frombuf',))
            if w is None:
                return ('resize-skip',)
            self.check_resize(w, False, 'while exported')
        elif op == 'handle':
            pyobj = [object(), self.next]
            real = ffi.new_handle(pyobj)
            o = self.new_obj('handle', real)
            o.pyobj = pyobj
            addrs = {}
            for h in self.objs.values():
                if h.kind == 'handle' and h.named:
                    a = int(ffi.cast('uintptr_t', self.refs[h.oid]))
                    if a in addrs:
                        self.bad('handles-share-address', 'two live handles at %#x' % a)
                    addrs[a] = h
        elif op == 'fromhandle':
            w = self.pick(('handle',))
            if w is None:
                return ('fromhandle-skip',)
            h = self.refs[w.oid]
            via = rnd.choice(['direct', 'voidp', 'intptr'])
            key = (op, via)
            if via == 'voidp':
                h = ffi.cast('void *', h)
            elif via == 'intptr':
                h = ffi.cast('void *', int(ffi.cast('intptr_t', h)))
            got = ffi.from_handle(h)
            if got is not w.pyobj:
                self.bad('from_handle-wrong-object', 'from_handle returned %r, not the object '
                         'given to new_handle' % (got,))
        elif op == 'useafter':
            # memory of an owner stays valid through a surviving alias
            a = self.pick(('alias',))
            if a is None:
                return ('useafter-skip',)
            real = self.refs[a.oid]
            exp = a.base.stamp
            if (real.a, real.b) != exp:
                self.bad('alias-memory-changed', 'struct read through alias = (%d, %d), owner was '
                         'stamped %r (owner %s)' % (real.a, real.b, exp,
                                                    'named' if a.base.named else 'dropped'))
            key = (op, a.base.named)
        return key

    def stamp(self, o):
        real = self.refs[o.oid]
        if o.kind == 'own_struct':
            v = (self.rnd.randint(-1000, 1000), self.rnd.randint(-10 ** 9, 10 ** 9))
            real.a, real.b = v
            o.stamp = v

    def check_resize(self, o, should_work, when):
        src = o.src
        try:
            src.append(1)
            worked = True
            del src[-1]
        except BufferError:
            worked = False
        if worked != should_work:
            self.bad('export-lock-released-early' if worked else 'export-lock-not-released',
                     'resizing the from_buffer source %s: %s' %
                     (when, 'worked' if worked else 'BufferError'))

    def after_drop(self):
        # acyclic unreachable wrappers are finalized at once (refcounting)
        for o in self.objs.values():
            if o.kind == 'gcwrapper' and o.destructor == 'on' and not o.released and \
                    not self.alive(o) and not self.in_cycle(o) and o.dcount != 1:
                self.bad('destructor-not-run-at-drop', 'acyclic wrapper %d became unreachable but '
                         'its destructor count is %d' % (o.oid, o.dcount))

    def in_cycle(self, o):
        # o (or something that keeps o alive ... i.e. children chains) is cyclic
        if o.cyclic:
            return True
        return any(self.in_cycle(c) for c in o.children)

    def after_collect(self):
        for o in self.objs.values():
            if self.alive(o):
                continue
            if o.kind == 'gcwrapper' and o.destructor == 'on' and not o.released and o.dcount != 1:
                self.bad('destructor-not-run-after-collect', 'wrapper %d is unreachable after '
                         'gc.collect() but its destructor count is %d' % (o.oid, o.dcount))
            if o.kind == 'gcwrapper' and o.destructor == 'off' and o.dcount:
                self.bad('destructor-after-gc-none', 'wrapper %d had its destructor removed but '
                         'it ran' % o.oid)
            if o.kind.startswith('alloc') and self.freed.get(o.addr) != 1:
                self.bad('allocator-free-count', 'allocation %d unreachable after gc.collect(): '
                         'free ran %r times' % (o.oid, self.freed.get(o.addr)))
            if o.kind == 'frombuf' and not o.released:
                self.check_resize(o, True, 'after the cdata was collected')
                o.released = True

    def finish(self):
        for o in self.objs.values():
            o.named = False
        self.refs.clear()
        gc.collect()
        gc.collect()
        self.after_collect()
        for o in self.objs.values():
            if o.kind == 'frombuf':
                src = o.src
                o.src = None
                r = o.src_ref
                del src
                gc.collect()
                if r() is not None:
                    self.bad('from_buffer-source-leaked', 'source of from_buffer still alive after '
                             'everything was dropped')


def child_case(st, case):
    import random
    ffi = st['ffi']
    rep = core.ChildRep()
    for seed in case['seeds']:
        rnd = random.Random(seed)
        h = H(ffi, rnd, rep, seed, case['ops'])
        rep.stat('histories')
        rep.stat('histories_gc_every_step' if h.collect_each else 'histories_gc_random')
        try:
            for _ in range(case['ops']):
                key = h.step()
                h.oplog.append(key)
                if h.collect_each:
                    gc.collect()
                    h.after_collect()
                live = sum(1 for o in h.objs.values() if o.named)
                rep.case((key, live, h.collect_each), nontrivial=key[0] != 'collect' and
                         not key[0].endswith('skip'), sample={'op': repr(key), 'live': live})
                rep.stat('op_' + key[0].split('-')[0])
            h.finish()
        except Exception as e:
            import traceback
            h.bad('harness-exception', traceback.format_exc()[-900:])
        rep.stat('destructors_run', sum(o.dcount for o in h.objs.values()))
        rep.stat('frees_run', sum(h.freed.values()))
    return rep.result()


def judge(ctx, setup, case, obs):
    core.absorb(ctx, case, obs, lambda seed: {'seeds': [seed], 'ops': case['ops']})
