"""C21 -- ownership, destructors and handles over any history.

Stateful model: random histories of create / alias / gc-wrap / release / with /
drop / gc.collect over ffi.new objects, ffi.gc wrappers (chains, cycles through
the destructor closure, gc(p, None)), new_allocator allocations, from_buffer
exports and handles.  The model knows which objects are reachable; destructor
and free callbacks are monitored at the moment they run and counted; memory is
stamped and read back through every surviving accessor (owner, p[0] alias, gc
wrapper, from_buffer cdata) and inside destructors.
ASan decides use-after-free / double free.

Every operation is driven through all of its equivalent entry points (the
pure-Python cffi.FFI, the compiled _cffi_backend.FFI and the bare
_cffi_backend functions), with failing variants (alloc functions that fail,
initialisers that fail after the allocation, from_buffer() calls that fail
before / after the buffer was acquired, destructors that raise or re-enter
release) and with reference cycles through every object that can carry one
(destructor closure -> wrapper, handle <-> its object, from_buffer cdata <->
its source).
"""
import sys, os, gc, weakref, array
from vlib import core

RULE = ("case = one history of 50 random operations over up to ~12 live objects: ffi.new structs/"
        "unions/variable-sized structs/arrays (3 entry points), p[0] aliases (also of allocator "
        "structs), ffi.gc wrappers of every kind of cdata (also of wrappers; destructors: plain, "
        "cyclic, raising, re-entering release/gc(None)/with), ffi.gc(w, None) (also after "
        "release), ffi.release / with / with+exception / __exit__ (3 entry points), "
        "new_allocator allocations (python alloc+free, alloc only, default, C-callback "
        "malloc/free; should_clear on/off; with initialisers), ffi.gc(lib.malloc(n), <C function>), "
        "failing allocations (alloc "
        "returns None / non-pointer / NULL / raises; initialiser fails after alloc), from_buffer "
        "on bytearray / array.array / memoryview / ffi.buffer() / counting __buffer__ exporters (typed, "
        "require_writable, shared sources, sources kept alive only by cffi, cycles source->cdata), "
        "failing from_buffer (too small, zero-sized items, not a pointer type, read-only, str, no "
        "buffer), handles (3 entry points, shared objects, objects kept alive only by the handle, "
        "cycles object->handle; from_handle through void*, char*, integer and struct fields); "
        "gc.collect() after every step on half of the histories; distinct = (operation, variant, "
        "model state summary) tuples; non-trivial = every operation except a plain gc.collect()")
ASSUMPTIONS = ["reachability is modelled from the references the harness itself holds (names) plus cffi's documented keep-alive edges (alias -> owner, gc wrapper -> original, from_buffer -> source, handle -> object)",
               "CPython reference counting: an unreachable acyclic object is finalized at once, a cyclic one at the next gc.collect()",
               "new_allocator()('struct *') behaves like ffi.new('struct *'): p[0] keeps the allocation alive",
               "a handle owns one reference to its object for exactly its own lifetime (the object is neither freed before nor kept after the handle)",
               "destructors that run inside a collection may find the other objects of the same garbage already finalized (memory is read inside a destructor only outside collections)"]


def generate(ctx):
    rng = ctx.rng('gen')
    nh = ctx.scale(1600, 60000)
    per = 100
    seeds = [rng.getrandbits(48) for _ in range(nh)]
    return None, [{'seeds': seeds[i:i + per], 'ops': 50} for i in range(0, nh, per)]


CDEF = """
struct s { int a; long b; char c[8]; };
union u { int a; long b; char c[12]; };
struct v { int n; short tail[]; };
struct hold { void *h; char *c; };
void *malloc(size_t);
void free(void *);
"""


_IN_GC = [0]


def _gc_callback(phase, info):
    # a destructor that runs inside a collection may see the objects of the
    # same garbage in any state (finalizers run in arbitrary order)
    _IN_GC[0] += 1 if phase == 'start' else -1


def child_setup(setup, wd):
    from cffi import FFI
    import _cffi_backend as B
    if _gc_callback not in gc.callbacks:
        gc.callbacks.append(_gc_callback)
    ffi = FFI()
    ffi.cdef(CDEF)
    st = {'ffi': ffi, 'B': B, 'cf': B.FFI(), 'lib': ffi.dlopen(None), 'cur': None}
    # an array type whose items have size 0 (from_buffer cannot compute a length)
    BEmpty = B.new_struct_type("struct c21_empty")
    B.complete_struct_or_union(BEmpty, [], Ellipsis, 0)
    st['BEmptyA'] = B.new_array_type(B.new_pointer_type(BEmpty), None)

    # C-level alloc / free functions (callbacks): dispatch to the running history
    @ffi.callback("void *(size_t)")
    def cb_alloc(size):
        return st['cur'].cb_alloc(size)

    @ffi.callback("void(void *)")
    def cb_free(p):
        st['cur'].cb_free(p)
    st['cb_alloc'], st['cb_free'] = cb_alloc, cb_free
    # everything that exists now (interpreter, modules, cffi types) is exempt
    # from the collections: a gc.collect() per step then only looks at the
    # objects of the histories
    gc.collect()
    gc.freeze()
    return st


class BA(bytearray):
    pass


class AR(array.array):
    pass


class PyO(object):
    """an object given to new_handle()"""
    pass


class Exp(object):
    """buffer exporter that counts acquisitions and releases"""
    # slots: a collection must not empty the exporter before its buffer is released
    __slots__ = ('ba', 'counts', 'readonly', 'cdata', '__weakref__')

    def __init__(self, data, counts, readonly=False):
        self.ba = bytearray(data)
        self.counts = counts        # [acquired, released]
        self.readonly = readonly

    def __buffer__(self, flags):
        self.counts[0] += 1
        mv = memoryview(self.ba)
        return mv.toreadonly() if self.readonly else mv

    def __release_buffer__(self, mv):
        self.counts[1] += 1
        mv.release()


class Obj(object):
    """model record of one cdata object"""
    def __init__(self, oid, kind, parent=None):
        self.oid, self.kind, self.parent = oid, kind, parent
        self.named = True          # the harness holds a reference
        self.destructor = None     # 'on' | 'off' (gc None) | None
        self.dcount = 0
        self.released = False
        self.cyclic = False
        self.gone = False          # seen unreachable at a full collection
        self.children = []         # model objects that keep this one alive
        self.base = None           # the object this one was derived from
        self.root = None           # the object that owns the memory (None: handle)
        self.isstruct = False      # cdata of struct type (not a pointer / array)
        self.stamp = None          # (on roots) expected memory content
        self.writable = True


class Src(object):
    """model record of one from_buffer source"""
    def __init__(self, flavour):
        self.flavour = flavour
        self.ref = None            # weakref to the exporter
        self.strong = None         # the harness' own reference (or None)
        self.lockobj = None        # object whose resize shows the export lock
        self.users = []            # frombuf Objs
        self.failed = 0            # failed from_buffer() calls that had acquired the buffer
        self.counts = None         # Exp: [acquired, released]
        self.content = b''
        self.cyclic = False
        self.readonly = False
        self.nolock = False
        self.done = False


class PyRec(object):
    """model record of an object given to new_handle()"""
    def __init__(self):
        self.ref = None
        self.strong = None
        self.handles = []
        self.cyclic = False
        self.done = False


class H(object):
    def __init__(self, st, rnd, rep, seed, ops):
        ffi = st['ffi']
        self.st, self.ffi, self.rnd, self.rep, self.seed = st, ffi, rnd, rep, seed
        self.B, self.cf, self.lib = st['B'], st['cf'], st['lib']
        self.objs = {}      # oid -> Obj
        self.refs = {}      # oid -> real object (strong ref held by the harness)
        self.next = 0
        self.collect_each = rnd.random() < 0.5
        self.oplog = []
        self.srcs = []
        self.pyos = []
        # allocations: every call of an alloc function gets an id
        self.alloc_ids = 0
        self.live_allocs = {}   # address -> allocation id (not yet freed)
        self.ever_addr = set()
        self.free_count = {}    # allocation id -> number of free calls
        self.by_aid = {}        # allocation id -> Obj
        self.alloc_mode = 'ok'
        self.last_aid = None
        clear = rnd.random() < 0.5
        self.allocators = {
            'py': (ffi.new_allocator(self.my_alloc, self.my_free,
                                     should_clear_after_alloc=clear), clear, 'api'),
            'nofree': (self.cf.new_allocator(self.my_alloc, None, not clear), not clear, 'cf'),
            'default': (ffi.new_allocator(should_clear_after_alloc=clear), clear, 'api'),
            'cb': (self.cf.new_allocator(alloc=st['cb_alloc'], free=st['cb_free'],
                                         should_clear_after_alloc=not clear), not clear, 'cf'),
        }
        self.in_release = None

    def bad(self, mech, msg):
        self.rep.bad(mech, '%s | history seed %d, last ops %r' % (msg, self.seed, self.oplog[-6:]),
                     self.seed)

    # ---- allocator callbacks ------------------------------------------
    def register_alloc(self, addr):
        self.alloc_ids += 1
        aid = self.alloc_ids
        if addr in self.live_allocs:
            self.bad('harness-exception', 'alloc returned an address that is still allocated')
        self.live_allocs[addr] = aid
        self.ever_addr.add(addr)
        self.free_count[aid] = 0
        self.last_aid = aid
        return aid

    def my_alloc(self, size):
        ffi = self.ffi
        mode = self.alloc_mode
        if mode == 'none':
            return None
        if mode == 'notptr':
            return ffi.cast('int', 5)
        if mode == 'null':
            return ffi.NULL
        if mode == 'raise':
            raise RuntimeError('c21 alloc failure')
        raw = ffi.new('char[]', size + 1)
        if size:
            ffi.buffer(raw)[0:size] = b'\xdd' * size
        self.register_alloc(int(ffi.cast('uintptr_t', raw)))
        return raw          # only cffi keeps it alive from now on

    def cb_alloc(self, size):
        ffi = self.ffi
        if self.alloc_mode == 'null':
            return ffi.NULL
        p = self.lib.malloc(size + 1)
        if size:
            ffi.buffer(ffi.cast('char *', p), size)[:] = b'\xdd' * size
        self.register_alloc(int(ffi.cast('uintptr_t', p)))
        return p

    def note_free(self, ptr):
        try:
            addr = int(self.ffi.cast('uintptr_t', ptr))
        except Exception:
            self.bad('allocator-free-unknown-pointer', 'free called with %r' % (ptr,))
            return None
        aid = self.live_allocs.pop(addr, None)
        if aid is None:
            if addr in self.ever_addr:
                self.bad('allocator-free-twice', 'free function ran again for an allocation that '
                         'was already freed (address %#x)' % addr)
            else:
                self.bad('allocator-free-unknown-pointer', 'free called with %r which alloc never '
                         'returned' % (ptr,))
            return None
        self.free_count[aid] += 1
        o = self.by_aid.get(aid)
        if o is not None and self.alive(o) and self.in_release is not o:
            self.bad('allocator-free-while-alive', 'free function ran while the allocation %d is '
                     'still reachable' % o.oid)
        return aid

    def my_free(self, ptr):
        self.note_free(ptr)

    def cb_free(self, ptr):
        if self.note_free(ptr) is not None:
            self.lib.free(ptr)

    # ---- model ---------------------------------------------------------
    def alive(self, o):
        if o.named:
            return True
        # a released wrapper has dropped its reference to the original
        return any(not c.released and self.alive(c) for c in o.children)

    def new_obj(self, kind, real, parent=None):
        o = Obj(self.next, kind, parent)
        self.next += 1
        self.objs[o.oid] = o
        self.refs[o.oid] = real
        if parent is not None:
            parent.children.append(o)
        return o

    def addr_of(self, x):
        ffi = self.ffi
        if ffi.typeof(x).kind in ('struct', 'union'):
            x = ffi.addressof(x)
        return int(ffi.cast('uintptr_t', x))

    def mem_valid(self, o):
        """the memory o points to is, by the documented keep-alive rules, still
        valid when reached through o"""
        if o.root is None or o.root.stamp is None:
            return False
        x = o
        while x is not None:
            if x.released:
                return False
            x = x.base
        return True

    def read_mem(self, o, real):
        ffi = self.ffi
        k = len(o.root.stamp)
        p = ffi.addressof(real) if o.isstruct else real
        return bytes(ffi.buffer(ffi.cast('char *', p), k))

    def write_mem(self, o, real, data):
        ffi = self.ffi
        p = ffi.addressof(real) if o.isstruct else real
        ffi.buffer(ffi.cast('char *', p), len(data))[:] = data

    def make_destructor(self, o, flavour):
        h = self
        cyclic = flavour != 'plain' and flavour != 'raise'

        def destructor(arg, _cycle=[]):
            o.dcount += 1
            if o.dcount > 1:
                h.bad('destructor-ran-twice', 'ffi.gc destructor of wrapper %d ran %d times' %
                      (o.oid, o.dcount))
                return
            if o.destructor == 'off':
                h.bad('destructor-after-gc-none', 'destructor of wrapper %d ran after '
                      'ffi.gc(w, None)' % o.oid)
            if h.alive(o) and h.in_release is not o:
                h.bad('destructor-while-alive', 'destructor of wrapper %d ran while it is still '
                      'reachable' % o.oid)
            try:
                addr = h.addr_of(arg)
            except Exception as e:
                h.bad('destructor-argument', 'destructor got %r' % (arg,))
                return
            if addr != o.orig_addr:
                h.bad('destructor-argument', 'destructor of wrapper %d got address %#x, wrapped '
                      'object is at %#x' % (o.oid, addr, o.orig_addr))
                return
            # the original object must still be usable inside the destructor
            # (outside a collection: there the order of finalizers is free)
            b = o.base
            if b is not None and not _IN_GC[0] and h.mem_valid(b):
                got = h.read_mem(b, arg)
                h.rep.stat('destructor_reads_memory')
                if got != b.root.stamp:
                    h.bad('destructor-memory-changed', 'destructor of wrapper %d reads %s through '
                          'its argument, memory was stamped %s' % (o.oid, got.hex(),
                                                                   b.root.stamp.hex()))
            if flavour.startswith('reenter') and _cycle and _cycle[0] is not None:
                w = _cycle[0]
                h.rep.stat('destructor_' + flavour)
                try:
                    if flavour == 'reenter-release':
                        h.ffi.release(w)
                    elif flavour == 'reenter-with':
                        with w:
                            pass
                    else:
                        h.ffi.gc(w, None)
                except Exception as e:
                    h.bad('release-raised', '%s inside the destructor raised %s: %s' %
                          (flavour, type(e).__name__, e))
            if flavour == 'raise':
                h.rep.stat('destructor_raises')
                raise ValueError('c21: destructor fails on purpose')
        if cyclic:
            destructor.__defaults__[0].append(None)     # placeholder, set to wrapper later
        return destructor, cyclic

    def pick(self, kinds=None, named=True):
        c = [o for o in self.objs.values() if o.named and not o.released and
             (kinds is None or o.kind in kinds)]
        return self.rnd.choice(c) if c else None

    def stamp(self, o, k):
        """fill the k bytes of memory that o owns with a random pattern"""
        data = bytes(self.rnd.getrandbits(8) for _ in range(k))
        o.root = o
        o.stamp = data
        if k:
            self.write_mem(o, self.refs[o.oid], data)

    # ---- operations ----------------------------------------------------
    NEW_TYPES = [('struct', 'struct s *', None, 24), ('struct', 'union u *', None, 16),
                 ('struct', 'struct v *', 'var', None), ('array', 'int[4]', None, 16),
                 ('array', 'int[]', 'len', None), ('array', 'struct s[2]', None, 48),
                 ('array', 'char[]', 'bytes', None)]

    def new_args(self, for_alloc=False):
        """(kind, ctype string, init, size in bytes)"""
        rnd = self.rnd
        kind, T, how, k = rnd.choice(self.NEW_TYPES)
        init = None
        if how == 'var':
            n = rnd.randint(0, 5)
            init = [rnd.randint(0, 99), n]
            k = 4 + 2 * n
        elif how == 'len':
            n = rnd.randint(0, 6)
            init = n
            k = 4 * n
        elif how == 'bytes':
            n = rnd.randint(0, 9)
            init = b'x' * n
            k = n + 1
        elif rnd.random() < 0.3:
            if T == 'struct s *':
                init = {'a': 7, 'b': -3}
            elif T == 'int[4]':
                init = [1, 2, 3]
        return kind, T, init, k

    def do_new(self, maker, via, T, init):
        ffi = self.ffi
        if via == 'api':
            return maker(T) if init is None else maker(T, init)
        BT = ffi.typeof(T)
        if via == 'cf':
            return maker(BT) if init is None else maker(BT, init=init)
        return maker(BT, init)          # bare backend: newp(BType, init)

    def step(self):
        rnd, ffi, B, cf = self.rnd, self.ffi, self.B, self.cf
        op = rnd.choice(['new', 'new', 'alias', 'gcwrap', 'gcwrap', 'gcchain', 'gcchain', 'gcnone',
                         'release', 'release', 'with', 'drop', 'drop', 'drop', 'drop', 'collect',
                         'alloc', 'alloc', 'alloc_fail', 'gcmalloc', 'frombuf', 'frombuf',
                         'frombuf_fail', 'resize', 'handle', 'handle', 'fromhandle', 'rerelease',
                         'useafter', 'useafter'])
        key = (op,)
        if op == 'new':
            kind, T, init, k = self.new_args()
            via = rnd.choice(['api', 'cf', 'backend'])
            maker = {'api': ffi.new, 'cf': cf.new, 'backend': B.newp}[via]
            real = self.do_new(maker, via, T, init)
            o = self.new_obj('own_' + kind, real)
            o.T = T
            self.stamp(o, k)
            key = (op, T, via)
            self.rep.stat('new_via_' + via)
        elif op == 'alias':
            # only ffi.new('struct *') (and an allocator's equivalent) promises
            # that p[0] keeps the memory alive
            c = [o for o in self.objs.values() if o.named and not o.released and
                 o.kind in ('own_struct', 'alloc_struct')]
            if not c:
                return ('alias-skip',)
            b = rnd.choice(c)
            real = self.refs[b.oid][0]
            o = self.new_obj('alias', real, parent=None)
            b.children.append(o)       # the alias keeps the owner alive
            o.base = b
            o.root = b.root
            o.isstruct = True
            del real
            dropped = rnd.random() < 0.4
            if dropped:
                # "q = ffi.new('struct *')[0]": the owner goes away at once
                b.named = False
                del self.refs[b.oid]
                self.after_drop()
                self.rep.stat('alias_then_owner_dropped')
            key = (op, b.kind, dropped)
            self.rep.stat('alias_of_' + b.kind)
        elif op in ('gcwrap', 'gcchain'):
            b = self.pick(('own_struct', 'own_array', 'alloc_struct', 'alloc_array', 'gcwrapper',
                           'alias', 'frombuf', 'handle')
                          if op == 'gcchain' else ('own_struct', 'own_array'))
            if b is None:
                return (op + '-skip',)
            flavour = rnd.choice(['plain', 'plain', 'plain', 'cyclic', 'cyclic', 'raise',
                                  'reenter-release', 'reenter-with', 'reenter-gcnone'])
            o = Obj(self.next, 'gcwrapper')
            self.next += 1
            d, cyclic = self.make_destructor(o, flavour)
            size = rnd.choice([0, 0, 4096])
            via = rnd.choice(['api', 'api', 'cf', 'cfkw', 'backend'])
            breal = self.refs[b.oid]
            if via == 'api':
                real = ffi.gc(breal, d, size) if size else ffi.gc(breal, d)
            elif via == 'cf':
                real = cf.gc(breal, d, size) if size else cf.gc(breal, d)
            elif via == 'cfkw':
                real = cf.gc(cdata=breal, destructor=d, size=size)
            else:
                real = B.gcp(breal, d, size) if size else B.gcp(breal, d)
            if cyclic:
                d.__defaults__[0][0] = real         # reference cycle wrapper -> destructor -> wrapper
            o.cyclic = cyclic
            o.destructor = 'on'
            o.orig_addr = self.addr_of(breal)
            o.base = b
            o.root = b.root
            o.isstruct = b.isstruct
            self.objs[o.oid] = o
            self.refs[o.oid] = real
            b.children.append(o)                    # wrapper keeps the original alive
            key = (op, b.kind, flavour)
            self.rep.stat('gcwrap_of_' + b.kind)
            self.rep.stat('gcwrap_destructor_' + flavour)
            self.rep.stat('gcwrap_via_' + via)
        elif op == 'gcnone':
            # also on wrappers that were released / whose destructor already ran
            c = [o for o in self.objs.values() if o.named and o.kind == 'gcwrapper']
            if not c:
                return ('gcnone-skip',)
            w = rnd.choice(c)
            via = rnd.choice(['api', 'cf', 'backend'])
            try:
                if via == 'api':
                    ffi.gc(self.refs[w.oid], None)
                elif via == 'cf':
                    cf.gc(self.refs[w.oid], None)
                else:
                    B.gcp(self.refs[w.oid], None)
            except Exception as e:
                # not demanded by the property (it only says what must not run
                # afterwards): counted, not judged
                self.rep.stat('gcnone_raised')
            else:
                if not w.dcount:
                    w.destructor = 'off'
            key = (op, w.released, via)
            self.rep.stat('gcnone_on_released' if w.released else 'gcnone_on_live')
        elif op in ('release', 'with', 'rerelease'):
            kinds = ('gcwrapper', 'own_struct', 'own_array', 'alloc_struct', 'alloc_array',
                     'frombuf')
            if op == 'rerelease':
                c = [o for o in self.objs.values() if o.named and o.released]
                w = rnd.choice(c) if c else None
            else:
                w = self.pick(kinds)
            if w is None:
                return (op + '-skip',)
            if any(c.named or self.alive(c) for c in w.children):
                # releasing memory that a live alias / wrapper still uses is the
                # user's error; not generated
                return (op + '-skip-has-dependents',)
            how = rnd.choice(['with', 'with-raise'] if op == 'with' else
                             ['ffi', 'ffi', 'cf', 'backend', 'exit'])
            key = (op, w.kind, how)
            before = w.dcount
            self.in_release = w
            w.released = True      # from now on it keeps nothing alive
            real = self.refs[w.oid]
            self.rep.stat('release_how_' + how)
            try:
                if how == 'with':
                    with real as again:
                        pass
                    if again is not real:
                        self.rep.stat('with_as_other_object')
                elif how == 'with-raise':
                    try:
                        with real:
                            raise KeyError('c21')
                    except KeyError:
                        pass
                    else:
                        self.rep.stat('with_swallowed_exception')
                elif how == 'ffi':
                    ffi.release(real)
                elif how == 'cf':
                    cf.release(real)
                elif how == 'backend':
                    B.release(real)
                else:
                    real.__exit__(None, None, None)
            except Exception as e:
                self.bad('release-raised', '%s of a %s raised %s: %s' %
                         (op, w.kind, type(e).__name__, e))
            self.in_release = None
            if w.kind == 'gcwrapper' and w.destructor == 'on':
                exp = 1
                if w.dcount != exp:
                    self.bad('destructor-not-run-at-release' if w.dcount < exp else
                             'destructor-ran-twice', '%s of wrapper %d: destructor count %d '
                             '(before %d)' % (op, w.oid, w.dcount, before))
            if w.kind.startswith('alloc'):
                want = 0 if w.nofree else 1
                if self.free_count.get(w.aid) != want:
                    self.bad('allocator-free-count', '%s of an allocator object (%s): free ran %r '
                             'times' % (op, w.flavour, self.free_count.get(w.aid)))
            if w.kind == 'frombuf':
                self.check_src(w.src, 'after ' + op)
            w.released = True
        elif op == 'drop':
            c = [o for o in self.objs.values() if o.named]
            c += [s for s in self.srcs if s.strong is not None]
            c += [p for p in self.pyos if p.strong is not None]
            if not c:
                return ('drop-skip',)
            o = rnd.choice(c)
            if isinstance(o, Src):
                # from now on only the from_buffer cdata keeps the source alive
                o.strong = None
                key = (op, 'source', o.flavour)
                self.rep.stat('drop_source')
            elif isinstance(o, PyRec):
                o.strong = None
                key = (op, 'handle-object')
                self.rep.stat('drop_handle_object')
            else:
                key = (op, o.kind, o.cyclic)
                o.named = False
                del self.refs[o.oid]
            del o
            self.after_drop()
        elif op == 'collect':
            gc.collect()
            self.after_collect()
        elif op == 'alloc':
            flavour = rnd.choice(['py', 'py', 'nofree', 'default', 'cb', 'cb'])
            allocator, clear, via = self.allocators[flavour]
            kind, T, init, k = self.new_args()
            self.st['cur'] = self
            self.alloc_mode = 'ok'
            self.last_aid = None
            real = self.do_new(allocator, via, T, init)
            if flavour == 'default':
                o = self.new_obj('own_' + kind, real)
                if self.last_aid is not None:
                    self.bad('allocator-address', 'default allocator called an alloc function')
            else:
                o = self.new_obj('alloc_' + kind, real)
                o.aid = self.last_aid
                o.nofree = flavour == 'nofree'
                o.flavour = flavour
                addr = int(ffi.cast('uintptr_t', real))
                if o.aid is None or self.live_allocs.get(addr) != o.aid:
                    self.bad('allocator-address', 'allocator object does not live in the memory '
                             'returned by the alloc function')
                else:
                    self.by_aid[o.aid] = o
            o.T = T
            if (init is None or T == 'int[]') and k:      # nothing was written yet
                b = bytes(ffi.buffer(ffi.cast('char *', real), k))
                if clear and b.strip(b'\0'):
                    self.bad('allocator-not-cleared', 'should_clear_after_alloc=True but memory is '
                             + b.hex())
                if not clear and flavour != 'default' and b != b'\xdd' * len(b):
                    self.bad('allocator-cleared', 'should_clear_after_alloc=False but memory was '
                             'modified: ' + b.hex())
            self.stamp(o, k)
            key = (op, flavour, T, clear, init is not None)
            self.rep.stat('alloc_' + flavour)
        elif op == 'gcmalloc':
            # the classic: ffi.gc(lib.malloc(n), <C function>) -- the destructor
            # is a C function pointer (a counting callback, or free() itself)
            k = rnd.choice([1, 8, 24, 100])
            counted = rnd.random() < 0.7
            self.st['cur'] = self
            raw = ffi.cast(rnd.choice(['char *', 'int *', 'struct s *']), self.lib.malloc(k))
            via = rnd.choice(['api', 'cf', 'backend'])
            gcf = {'api': ffi.gc, 'cf': cf.gc, 'backend': B.gcp}[via]
            if counted:
                aid = self.register_alloc(int(ffi.cast('uintptr_t', raw)))
                real = gcf(raw, self.st['cb_free'])
                o = self.new_obj('alloc_array', real)
                o.aid, o.nofree, o.flavour = aid, False, 'gc-malloc'
                self.by_aid[aid] = o
            else:
                real = gcf(raw, self.lib.free)
                o = self.new_obj('own_array', real)
            del raw
            o.T = 'malloc'
            self.stamp(o, k)
            key = (op, counted, via)
            self.rep.stat('gcmalloc_counted' if counted else 'gcmalloc_free')
        elif op == 'alloc_fail':
            # a failing allocation: the free function runs once if (and only if)
            # the alloc function had already handed out memory
            mode = rnd.choice(['none', 'notptr', 'null', 'raise', 'badinit', 'badinit'])
            flavour = 'cb' if mode in ('null', 'badinit') and rnd.random() < 0.4 else 'py'
            allocator, clear, via = self.allocators[flavour]
            self.st['cur'] = self
            self.last_aid = None
            if mode == 'badinit':
                T, init = rnd.choice([('struct s *', {'nosuchfield': 1}), ('int[]', [1, 'x']),
                                      ('int[4]', [1, 2, 3, 4, 5]), ('struct s *', [1, 2, 3, 4, 5]),
                                      ('union u *', 'text'), ('struct v *', [1, [2, 'y']])])
                self.alloc_mode = 'ok'
            else:
                T, init = rnd.choice([('struct s *', None), ('int[]', 3), ('int[4]', None)])
                self.alloc_mode = mode
            nlive = len(self.live_allocs)
            try:
                real = self.do_new(allocator, via, T, init)
            except Exception as e:
                real = None
                self.rep.stat('alloc_fail_' + mode)
            finally:
                self.alloc_mode = 'ok'
            if real is not None:
                # (not a matter of this property) it worked: a normal allocation
                self.rep.stat('alloc_fail_unexpected_success')
                del real
            aid = self.last_aid
            if mode != 'badinit':
                if aid is not None:
                    self.bad('harness-exception', 'allocation registered in mode ' + mode)
            elif aid is not None:
                if self.free_count[aid] != 1:
                    gc.collect()
                if self.free_count[aid] != 1:
                    self.bad('allocator-free-count', 'initialiser %r for %s failed after the alloc '
                             'function had returned memory: free ran %d times' %
                             (init, T, self.free_count[aid]))
            if len(self.live_allocs) > nlive and mode != 'badinit':
                self.bad('harness-exception', 'live allocation count grew in mode ' + mode)
            key = (op, mode, flavour, T)
        elif op == 'frombuf':
            key = self.op_frombuf()
        elif op == 'frombuf_fail':
            key = self.op_frombuf_fail()
        elif op == 'resize':
            c = [s for s in self.srcs if not s.done]
            if not c:
                return ('resize-skip',)
            self.check_src(rnd.choice(c), 'at a resize operation')
        elif op == 'handle':
            # the object: new, or one that already has a live handle
            c = [p for p in self.pyos if p.strong is not None and not p.cyclic]
            if c and rnd.random() < 0.3:
                rec = rnd.choice(c)
                pyobj = rec.strong
                shape = 'shared'
            else:
                rec = PyRec()
                pyobj = PyO()
                rec.ref = weakref.ref(pyobj)
                shape = rnd.choice(['held', 'held', 'unheld', 'cyclic'])
                rec.strong = pyobj if shape == 'held' else None
                self.pyos.append(rec)
            via = rnd.choice(['api', 'cf', 'backend'])
            if via == 'api':
                real = ffi.new_handle(pyobj)
            elif via == 'cf':
                real = cf.new_handle(pyobj)
            else:
                real = B.newp_handle(ffi.typeof('void *'), pyobj)
            if shape == 'cyclic':
                pyobj.handle = real        # cycle object -> handle -> object
                rec.cyclic = True
            del pyobj
            o = self.new_obj('handle', real)
            o.cyclic = shape == 'cyclic'
            o.rec = rec
            rec.handles.append(o)
            addrs = {}
            for h in self.objs.values():
                if h.kind == 'handle' and h.named:
                    a = int(ffi.cast('uintptr_t', self.refs[h.oid]))
                    if a in addrs:
                        self.bad('handles-share-address', 'two live handles at %#x' % a)
                    addrs[a] = h
            key = (op, shape, via)
            self.rep.stat('handle_' + shape)
            self.rep.stat('handle_via_' + via)
        elif op == 'fromhandle':
            w = self.pick(('handle',))
            if w is None:
                return ('fromhandle-skip',)
            want = w.rec.ref()
            if want is None:
                self.bad('handle-object-freed', 'the object given to new_handle() was freed while '
                         'the handle is alive')
                return (op, 'freed')
            h = self.refs[w.oid]
            via = rnd.choice(['direct', 'voidp', 'charp', 'intptr', 'field-voidp', 'field-charp'])
            entry = rnd.choice(['api', 'cf', 'backend'])
            key = (op, via, entry)
            if via == 'voidp':
                h = ffi.cast('void *', h)
            elif via == 'charp':
                h = ffi.cast('char *', h)
            elif via == 'intptr':
                h = ffi.cast('void *', int(ffi.cast('intptr_t', h)))
            elif via.startswith('field'):
                hold = ffi.new('struct hold *')
                hold.h = h
                hold.c = ffi.cast('char *', h)
                h = hold.h if via == 'field-voidp' else hold.c
            try:
                got = {'api': ffi.from_handle, 'cf': cf.from_handle,
                       'backend': B.from_handle}[entry](h)
            except Exception as e:
                self.bad('from_handle-raised', 'from_handle(<live handle as %s>) raised %s: %s' %
                         (via, type(e).__name__, e))
                return key
            if got is not want:
                self.bad('from_handle-wrong-object', 'from_handle returned %r, not the object '
                         'given to new_handle' % (got,))
            del got, want
            self.rep.stat('fromhandle_' + via)
        elif op == 'useafter':
            # memory stays valid through every surviving accessor
            c = [o for o in self.objs.values() if o.named and self.mem_valid(o)]
            if not c:
                return ('useafter-skip',)
            # half of the time: an accessor that alone keeps the memory alive
            # (owner dropped / source referenced by nobody else)
            c2 = [o for o in c if (o.root.src.strong is None if o.root.kind == 'frombuf'
                                   else not o.root.named)]
            a = rnd.choice(c2 if c2 and rnd.random() < 0.5 else c)
            real = self.refs[a.oid]
            got = self.read_mem(a, real)
            if a.root.kind == 'frombuf':
                owner = 'source-held' if a.root.src.strong is not None else 'source-unheld'
            else:
                owner = 'named' if a.root.named else 'dropped'
            if got != a.root.stamp:
                self.bad('alias-memory-changed' if a.kind == 'alias' else 'memory-changed',
                         'memory read through %s %d = %s, owner %s %d was stamped %s (owner %s)' %
                         (a.kind, a.oid, got.hex(), a.root.kind, a.root.oid, a.root.stamp.hex(),
                          owner))
            if a.root.writable and a.root.stamp and rnd.random() < 0.3:
                data = bytes(rnd.getrandbits(8) for _ in range(len(a.root.stamp)))
                self.write_mem(a, real, data)
                a.root.stamp = data
                self.rep.stat('restamp_through_' + a.kind)
            key = (op, a.kind, a.root.kind, owner)
            self.rep.stat('useafter_%s_owner_%s' % (a.kind, owner))
        return key

    # ---- from_buffer ------------------------------------------------------
    FB_TYPES = [None, None, 'char[]', 'unsigned char[]', 'int[]', 'short[3]', 'char[16]',
                'struct s *', 'int *', 'long long[2]']

    def make_source(self, flavour=None):
        rnd = self.rnd
        flavour = flavour or rnd.choice(['ba', 'ba', 'exp', 'exp', 'array', 'mv', 'exp-ro', 'mv-ro', 'minibuf'])
        n = rnd.choice([16, 17, 24, 40])
        data = bytes(rnd.getrandbits(8) for _ in range(n))
        s = Src(flavour)
        s.content = data
        if flavour == 'ba':
            x = BA(data)
        elif flavour == 'array':
            x = AR('b', data)
        elif flavour == 'minibuf':
            # ffi.buffer() of an owned array that nothing else references: no
            # lock to observe, but the chain cdata -> buffer -> array must hold
            c = self.ffi.new('char[]', n)
            x = self.ffi.buffer(c)
            x[:] = data
            del c
            s.nolock = True
        elif flavour.startswith('mv'):
            s.lockobj = bytearray(data)
            x = memoryview(s.lockobj)
            if flavour == 'mv-ro':
                x = x.toreadonly()
                s.readonly = True
        else:
            s.counts = [0, 0]
            s.readonly = flavour == 'exp-ro'
            x = Exp(data, s.counts, s.readonly)
            s.lockobj = x.ba
        s.ref = weakref.ref(x)
        s.strong = x
        self.srcs.append(s)
        self.rep.stat('frombuf_source_' + flavour)
        return s

    def from_buffer(self, T, x, rw, via):
        ffi = self.ffi
        if via == 'api1':
            return ffi.from_buffer(x, require_writable=True) if rw else ffi.from_buffer(x)
        if via == 'api':
            return ffi.from_buffer(T, x, require_writable=rw)
        BT = T if not isinstance(T, str) else ffi.typeof(T)
        if via == 'cf':
            if T is None:
                return self.cf.from_buffer(x, require_writable=rw) if rw else self.cf.from_buffer(x)
            return self.cf.from_buffer(BT, x, require_writable=rw)
        return self.B.from_buffer(BT, x, 1) if rw else self.B.from_buffer(BT, x)

    def op_frombuf(self):
        rnd, ffi = self.rnd, self.ffi
        c = [s for s in self.srcs if s.strong is not None and not s.cyclic and not s.done]
        if c and rnd.random() < 0.3:
            s = rnd.choice(c)
            shape = 'shared'
        else:
            s = self.make_source()
            shape = 'fresh'
        x = s.strong
        T = rnd.choice(self.FB_TYPES)
        rw = (not s.readonly) and rnd.random() < 0.3
        if T is None:
            via = rnd.choice(['api1', 'cf'])
        else:
            via = rnd.choice(['api', 'cf', 'backend'])
        real = self.from_buffer(T, x, rw, via)
        o = self.new_obj('frombuf', real)
        o.src = s
        o.root = o
        o.writable = False
        o.stamp = s.content[:16]
        s.users.append(o)
        if shape == 'fresh':
            keep = rnd.choice(['held', 'unheld', 'cyclic'])
            if keep == 'cyclic' and (s.flavour.startswith('mv') or s.flavour == 'minibuf'):
                keep = 'unheld'
            if keep == 'cyclic':
                x.cdata = real            # cycle source -> cdata -> source
                s.cyclic = True
                o.cyclic = True
            if keep != 'held':
                s.strong = None
            shape = keep
        del x
        self.check_src(s, 'right after from_buffer')
        self.rep.stat('frombuf_shape_' + shape)
        self.rep.stat('frombuf_via_' + via)
        self.rep.stat('frombuf_type_' + (T or 'default').replace(' ', '_'))
        if rw:
            self.rep.stat('frombuf_require_writable')
        return ('frombuf', s.flavour, T, via, shape, rw)

    def op_frombuf_fail(self):
        """a failing from_buffer() must not leave the source export-locked or
        referenced, and must not disturb the exports that exist"""
        rnd, ffi = self.rnd, self.ffi
        mode = rnd.choice(['too-small', 'too-small', 'empty-item', 'empty-item', 'not-pointer',
                           'readonly', 'str', 'no-buffer'])
        c = [s for s in self.srcs if s.strong is not None and not s.cyclic and not s.done]
        s = None
        fresh = False
        rw = False
        acquired = False        # the failure comes after the buffer was acquired
        if mode == 'str':
            x, T = u'some text', 'char[]'
        elif mode == 'no-buffer':
            x, T = object(), 'char[]'
        else:
            if mode == 'readonly':
                c = [s for s in c if s.readonly]
            if c and rnd.random() < 0.4:
                s = rnd.choice(c)
            else:
                s = self.make_source(rnd.choice(['exp-ro', 'mv-ro']) if mode == 'readonly'
                                     else None)
                fresh = True
            x = s.strong
            if mode == 'too-small':
                T = rnd.choice(['int[64]', 'char[41]', 'long long[6]', 'struct s[2]'])
                acquired = True
            elif mode == 'empty-item':
                T = self.st['BEmptyA']
                acquired = True
            elif mode == 'not-pointer':
                T = rnd.choice(['int', 'struct s'])
            else:
                T = rnd.choice(['char[]', 'int[]', 'struct s *'])
                rw = True
        via = rnd.choice(['api', 'cf', 'backend'])
        if mode in ('str', 'no-buffer') and rnd.random() < 0.5:
            via, T = 'api1', None
        try:
            real = self.from_buffer(T, x, rw, via)
        except Exception as e:
            real = None
            self.rep.stat('frombuf_fail_' + mode)
        del x
        if real is not None:
            if mode == 'too-small':
                self.bad('from_buffer-too-small-accepted', "from_buffer(%r, <%d bytes>) accepted"
                         % (T, len(s.content)))
            self.rep.stat('frombuf_fail_unexpected_success')
            ffi.release(real)
            del real
            if s is not None:
                s.failed += 1       # acquired and released
        elif acquired and not (rw and s.readonly):
            s.failed += 1
        if s is not None:
            if fresh:
                s.strong = None
            self.check_src(s, 'after a failed from_buffer (%s)' % mode)
            if fresh:
                if s.ref() is not None:
                    gc.collect()
                if s.ref() is not None:
                    self.bad('from_buffer-source-leaked', 'source (%s) of a failed from_buffer '
                             '(%s) is kept alive' % (s.flavour, mode))
                s.done = True
        return ('frombuf_fail', mode, via, s.flavour if s else None, 'fresh' if fresh else 'shared')

    def check_src(self, s, when, collected=False):
        """export lock, release count and liveness of one from_buffer source"""
        if s.done:
            return
        users = s.users
        locked_must = any(not u.released and self.alive(u) for u in users)
        if collected:
            for u in users:
                if not u.released and not self.alive(u):
                    u.gone = True
        unlocked_must = all(u.released or u.gone for u in users)
        if s.ref() is None:
            if locked_must:
                self.bad('from_buffer-source-freed', 'the source (%s) was freed although a '
                         'from_buffer cdata that was not released is alive, %s' % (s.flavour, when))
            s.done = True
            return
        if collected and s.strong is None and unlocked_must:
            self.bad('from_buffer-source-leaked', 'source (%s) of from_buffer still alive '
                     'after every cdata made from it was released or collected' % s.flavour)
            s.done = True
            return
        if (locked_must or unlocked_must) and not s.nolock:
            worked = self.probe_lock(s)
            if worked and locked_must:
                self.bad('export-lock-released-early', 'resizing the from_buffer source (%s) %s: '
                         'worked' % (s.flavour, when))
            if not worked and unlocked_must:
                self.bad('export-lock-not-released', 'resizing the from_buffer source (%s) %s: '
                         'BufferError' % (s.flavour, when))
        if s.counts is not None:
            lo = s.failed + sum(1 for u in users if u.released or u.gone)
            hi = lo + sum(1 for u in users if not u.released and not u.gone and not self.alive(u))
            rel = s.counts[1]
            if rel < lo:
                self.bad('export-lock-not-released', 'counting exporter %s: %d buffer releases, '
                         'expected at least %d' % (when, rel, lo))
            elif rel > hi:
                self.bad('export-released-twice', 'counting exporter %s: %d buffer releases, '
                         'expected at most %d' % (when, rel, hi))

    def probe_lock(self, s):
        """True if the source is not export-locked"""
        x = s.ref()
        try:
            if s.flavour.startswith('mv'):
                # a memoryview cannot be released while a consumer holds a buffer
                # obtained from it; when it can, it is unusable afterwards
                x.release()
                s.done = True
            else:
                target = s.lockobj if s.lockobj is not None else x
                target.append(1)
                del target[-1]
            return True
        except BufferError:
            return False

    # ---- checks after drops and collections ----------------------------
    def after_drop(self):
        # acyclic unreachable wrappers are finalized at once (refcounting)
        for o in self.objs.values():
            if o.kind == 'gcwrapper' and o.destructor == 'on' and not o.released and \
                    not self.alive(o) and not self.in_cycle(o) and o.dcount != 1:
                self.bad('destructor-not-run-at-drop', 'acyclic wrapper %d became unreachable but '
                         'its destructor count is %d' % (o.oid, o.dcount))

    def in_cycle(self, o):
        # o (or something that keeps o alive ... i.e. children chains) is cyclic
        if o.cyclic:
            return True
        return any(self.in_cycle(c) for c in o.children)

    def after_collect(self):
        for o in self.objs.values():
            if self.alive(o):
                continue
            if o.kind == 'gcwrapper' and o.destructor == 'on' and not o.released and o.dcount != 1:
                self.bad('destructor-not-run-after-collect', 'wrapper %d is unreachable after '
                         'gc.collect() but its destructor count is %d' % (o.oid, o.dcount))
            if o.kind == 'gcwrapper' and o.destructor == 'off' and o.dcount:
                self.bad('destructor-after-gc-none', 'wrapper %d had its destructor removed but '
                         'it ran' % o.oid)
            if o.kind.startswith('alloc') and not o.gone:
                want = 0 if o.nofree else 1
                if self.free_count.get(o.aid) != want:
                    self.bad('allocator-free-count', 'allocation %d (%s) unreachable after '
                             'gc.collect(): free ran %r times' % (o.oid, o.flavour,
                                                                  self.free_count.get(o.aid)))
            o.gone = True
        for s in self.srcs:
            self.check_src(s, 'after a full collection', collected=True)
        for p in self.pyos:
            if p.done:
                continue
            if any(self.alive(h) for h in p.handles):
                if p.ref() is None:
                    self.bad('handle-object-freed', 'the object given to new_handle() was freed '
                             'while a handle is alive')
                    p.done = True
            elif p.strong is None:
                if p.ref() is not None:
                    self.bad('handle-object-leaked', 'the object given to new_handle() is still '
                             'alive after all its handles were collected (%s)' %
                             ('cycle object -> handle' if p.cyclic else 'no cycle'))
                p.done = True

    def finish(self):
        for o in self.objs.values():
            o.named = False
        for s in self.srcs:
            s.strong = None
        for p in self.pyos:
            p.strong = None
        self.refs.clear()
        gc.collect()
        gc.collect()
        self.after_collect()
        if self.live_allocs:
            # every allocation with a free function must have been freed by now
            for addr, aid in self.live_allocs.items():
                o = self.by_aid.get(aid)
                if o is None or not o.nofree:
                    self.bad('allocator-free-count', 'an allocation (%s) was never freed although '
                             'everything was dropped and collected' %
                             (o.flavour if o is not None else 'failed call'))
                    break


def child_case(st, case):
    import random
    rep = core.ChildRep()
    for seed in case['seeds']:
        rnd = random.Random(seed)
        h = H(st, rnd, rep, seed, case['ops'])
        st['cur'] = h
        rep.stat('histories')
        rep.stat('histories_gc_every_step' if h.collect_each else 'histories_gc_random')
        try:
            for _ in range(case['ops']):
                key = h.step()
                h.oplog.append(key)
                if h.collect_each:
                    gc.collect()
                    h.after_collect()
                live = sum(1 for o in h.objs.values() if o.named)
                rep.case((key, live, h.collect_each), nontrivial=key[0] != 'collect' and
                         not key[0].endswith('skip'), sample={'op': repr(key), 'live': live})
                rep.stat('op_' + key[0].split('-')[0])
            h.finish()
        except Exception as e:
            import traceback
            h.bad('harness-exception', traceback.format_exc()[-900:])
        rep.stat('destructors_run', sum(o.dcount for o in h.objs.values()))
        rep.stat('frees_run', sum(h.free_count.values()))
    return rep.result()


def judge(ctx, setup, case, obs):
    core.absorb(ctx, case, obs, lambda seed: {'seeds': [seed], 'ops': case['ops']})
