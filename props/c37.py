"""C37 -- closed dlopen libraries refuse further symbol access.

History + model: a gcc-built library (functions; scalar / array / struct /
pointer / function-pointer globals; a non-integer constant) is copied to a
fresh file per history and dlopen()ed in-line (FFI().dlopen) or out-of-line
(emit_python_code module).  Random accesses before the close are checked
against a value model (so the library is really live and really used), then
ffi.dlclose(lib), then random accesses: every read/write of a global, every
fetch / addressof of a name never touched before the close must raise; closing
again must return None.  The copy is unmapped after the close (checked in
/proc/self/maps), so an access that slips through dies with SIGSEGV: the child
writes a breadcrumb before every step and the parent attributes the death to
the (history, step) that was running.  A never-closed RTLD_GLOBAL decoy copy with
the same symbol names makes an access that continues with the NULL handle
(dlsym(NULL) = global lookup) return a value instead of failing by luck.

Further input classes: a SIBLING lib object (same ffi, same file, opened separately, so
the image stays mapped and shares the variables) that is used before and after the close
of the main lib and must not be harmed by closing the main lib AGAIN; RTLD_NODELETE
(image stays mapped: only the exception oracle decides); names declared in the cdef but
missing from the library (failing accesses before the close); failing writes before the
close; vars(lib) before / after the close; hasattr() and getattr(lib, name, default) as
entry points for the post-close accesses; integer and struct 'static const' constants.
"""
import os, sys, shutil, random
from vlib import core, cc

RULE = ("case = one demanded observation of a history: (mode in-line/out-of-line, post-close op in "
        "read / write / read-const / fetch-unfetched function / addressof-untouched name / close "
        "again / vars(lib), name, how the name was used before the close); history = 0..25 modelled "
        "accesses (fetch, call, read, write, failing write, element/field access, addressof, constants, "
        "dir, vars, missing symbols, accesses through a sibling lib object of the same file) on a "
        "private copy of the library, dlclose, 6..25 post-close ops (plain / hasattr / getattr-default "
        "entry points; sibling accesses in between); distinct = (mode, op, name, prior use); "
        "non-trivial = the history used the library before closing it")
ASSUMPTIONS = ["'raises an error' = any Exception other than SystemError/MemoryError; the types seen "
               "are counted per mode",
               "re-fetching / addressof of a name already touched before the close, integer "
               "constants and dir() after the close are outside the statement: run for survival, "
               "outcomes only counted",
               "cdata / function objects obtained before the close are never used after it",
               "hasattr(lib, name) == False and getattr(lib, name, default) returning the default count "
               "as 'refused' (the access raised AttributeError inside)",
               "vars(lib) after the close must raise or contain no library-backed name that was not "
               "touched before the close",
               "a sibling lib object (separately dlopen()ed on the same file) is only demanded to survive "
               "a close-AGAIN of the main lib (usable right before it => usable right after it); what the "
               "first close does to it is only counted"]
PER = 20
TIMEOUT = 900
MAX_CRASHES = 6

CSRC = r'''
struct pt { int x, y; };
int g_int = 11; long long g_ll = -5000000000LL; double g_dbl = 1.5; float g_f = 0.25f;
char g_ch = 'c'; short g_sh = -7; unsigned char g_u8 = 200; unsigned long g_ul = 99;
_Bool g_bool = 1;
int g_arr[8] = {0, 1, 2, 3, 4, 5, 6, 7};
char g_buf[16] = "hello";
int *g_ptr = g_arr;
struct pt g_pt = {3, 4};
struct pt g_pts[3] = {{1, 2}, {3, 4}, {5, 6}};
const double K_DBL = 2.5;
const int K_SI = 77;
const struct pt K_PT = {8, 9};
int f_add(int a, int b) { return a + b; }
int (*g_fp)(int, int) = f_add;
double f_half(double x) { return x / 2; }
long long f_neg(long long x) { return -x; }
int f_get_int(void) { return g_int; }
void f_set_int(int v) { g_int = v; }
int f_sum_arr(void) { int i, s = 0; for (i = 0; i < 8; i++) s += g_arr[i]; return s; }
int f_pt_x(void) { return g_pt.x; }
size_t f_strlen(const char *s) { return strlen(s); }
void f_u0(void) {} void f_u1(void) {} void f_u2(void) {} void f_u3(void) {}
int f_u4(int x) { return x; } double f_u5(double x) { return x; }
'''
CDEF = '''
struct pt { int x, y; };
int g_int; long long g_ll; double g_dbl; float g_f; char g_ch; short g_sh;
unsigned char g_u8; unsigned long g_ul; _Bool g_bool;
int g_arr[8]; char g_buf[16]; int *g_ptr; struct pt g_pt; struct pt g_pts[3];
int (*g_fp)(int, int);
static const double K_DBL;
static const int K_SI;
static const struct pt K_PT;
int z_missing_fn(int); int z_missing_var;
#define K_INT 42
enum e { E_A, E_B = 7 };
int f_add(int, int); double f_half(double); long long f_neg(long long);
int f_get_int(void); void f_set_int(int); int f_sum_arr(void); int f_pt_x(void);
size_t f_strlen(const char *);
void f_u0(void); void f_u1(void); void f_u2(void); void f_u3(void); int f_u4(int); double f_u5(double);
'''
FUNCS = ['f_add', 'f_half', 'f_neg', 'f_get_int', 'f_set_int', 'f_sum_arr', 'f_pt_x', 'f_strlen',
         'f_u0', 'f_u1', 'f_u2', 'f_u3', 'f_u4', 'f_u5']
SCALARS = ['g_int', 'g_ll', 'g_dbl', 'g_f', 'g_ch', 'g_sh', 'g_u8', 'g_ul', 'g_bool']
COMPOUND = ['g_arr', 'g_buf', 'g_ptr', 'g_pt', 'g_pts', 'g_fp']
VARS = SCALARS + COMPOUND
CONSTS = ['K_DBL', 'K_SI', 'K_PT']          # read from the library (out-of-line only)
MISSING_FN, MISSING_VAR = 'z_missing_fn', 'z_missing_var'   # declared, not in the library; sort last
BADWRITES = [('g_int', 'x'), ('g_int', 2 ** 31), ('g_u8', 256), ('g_u8', -1), ('g_sh', 2 ** 15),
             ('g_ch', b'ab'), ('g_dbl', 'x'), ('g_ll', 2 ** 63), ('g_pt', 5), ('g_ptr', 5),
             ('g_arr', [0] * 9), ('g_ul', -1)]


class Refused(Exception):
    """hasattr() said False / getattr() returned the default"""


NOTHING = object()
INIT = {'g_int': 11, 'g_ll': -5000000000, 'g_dbl': 1.5, 'g_f': 0.25, 'g_ch': b'c', 'g_sh': -7,
        'g_u8': 200, 'g_ul': 99, 'g_bool': True}


def generate(ctx):
    rng = ctx.rng('gen')
    n = ctx.scale(400, 10000)
    seeds = [rng.getrandbits(40) for _ in range(n)]
    return make_setup(ctx), [make_case(ctx, seeds[i:i + PER], i // PER) for i in range(0, n, PER)]


def make_setup(ctx):
    # -Bsymbolic: each copy's own references stay inside the copy although a decoy copy
    # with the same symbol names is loaded RTLD_GLOBAL (see child_setup)
    return {'so': cc.build_so(ctx.tmp, CSRC, 'c37_lib.so', flags=['-Wl,-Bsymbolic'])}


def make_case(ctx, seeds, no):
    d = os.path.join(ctx.tmp, 'crumbs')
    os.makedirs(d, exist_ok=True)
    return {'seeds': seeds, 'no': no, 'crumb': os.path.join(d, 'c%s_%d.txt' % (no, len(seeds)))}


# ---------------------------------------------------------------- child
def child_setup(setup, wd):
    import warnings, importlib
    from cffi import FFI
    warnings.simplefilter('ignore')
    sys.path.insert(0, wd)
    ffib = FFI()
    ffib.cdef(CDEF)
    ffib.set_source('_c37_ool', None)
    ffib.emit_python_code(os.path.join(wd, '_c37_ool.py'))
    ool = importlib.import_module('_c37_ool').ffi
    # a never-closed RTLD_GLOBAL copy: an access that goes on with a NULL handle after the
    # close (dlsym(NULL) = global lookup) finds these symbols and returns instead of failing
    decoy = os.path.join(wd, 'c37_decoy.so')
    shutil.copyfile(setup['so'], decoy)
    return {'wd': wd, 'so': setup['so'], 'ool': ool, 'inline': None, 'n': 0,
            'decoy': ool.dlopen(decoy, ool.RTLD_GLOBAL | ool.RTLD_NOW)}


def rand_value(rnd, name):
    if name == 'g_int':
        return rnd.choice([0, -1, 2 ** 31 - 1, -2 ** 31, rnd.randint(-10 ** 6, 10 ** 6)])
    if name == 'g_ll':
        return rnd.choice([2 ** 63 - 1, -2 ** 63, rnd.getrandbits(62) - 2 ** 61])
    if name == 'g_dbl':
        return rnd.choice([0.0, -1e300, rnd.random() * 1e6])
    if name == 'g_f':
        return rnd.randint(-4000, 4000) / 8.0
    if name == 'g_ch':
        return bytes([rnd.randrange(256)])
    if name == 'g_sh':
        return rnd.randint(-2 ** 15, 2 ** 15 - 1)
    if name == 'g_u8':
        return rnd.randrange(256)
    if name == 'g_ul':
        return rnd.choice([0, 2 ** 64 - 1, rnd.getrandbits(64)])
    if name == 'g_bool':
        return rnd.random() < 0.5
    if name == 'g_arr':
        return [rnd.randint(-10 ** 6, 10 ** 6) for _ in range(8)]
    if name == 'g_buf':
        return b'xyz'
    if name == 'g_pt':
        return {'x': rnd.randint(-99, 99), 'y': rnd.randint(-99, 99)}
    if name == 'g_pts':
        return [{'x': 1, 'y': 2}] * 3
    return None         # g_ptr, g_fp: NULL


class H(object):
    """one history: the real lib object next to a model of the library's state"""

    def __init__(self, st, rep, seed, crumb):
        from cffi import FFI
        self.rnd = rnd = random.Random(seed)
        self.rep, self.seed, self.crumb = rep, seed, crumb
        self.mode = rnd.choice(['inline', 'outofline'])
        if self.mode == 'inline':
            if st['inline'] is None or rnd.random() < 0.1:
                st['inline'] = FFI()
                st['inline'].cdef(CDEF)
            self.ffi = st['inline']
        else:
            self.ffi = st['ool']
        st['n'] += 1
        self.path = os.path.join(st['wd'], 'c37_%d_%d.so' % (os.getpid(), st['n']))
        shutil.copyfile(st['so'], self.path)
        flags = rnd.choice([(), (), ('RTLD_LAZY',), ('RTLD_NOW',), ('RTLD_GLOBAL', 'RTLD_NOW'),
                            ('RTLD_LOCAL', 'RTLD_LAZY'), ('RTLD_NODELETE', 'RTLD_NOW')])
        self.nodelete = 'RTLD_NODELETE' in flags
        # a sibling: another lib object of the same ffi on the same file, opened separately
        # (same image, same variables; the image stays mapped while the sibling is open)
        self.sib = None
        sib = rnd.choice([None, None, None, None, 'before', 'after'])
        if sib == 'before':
            self.sib = self.ffi.dlopen(self.path)
        # how the library is opened: by file name, or from a 'void *' handle that the
        # program got from the C dlopen() itself (ffi.dlclose must close that one too)
        self.how = rnd.choice(['name', 'name', 'handle'])
        if self.how == 'name':
            self.lib = self.ffi.dlopen(self.path, sum(getattr(self.ffi, f) for f in flags))
        else:
            if st.get('dl') is None:
                dl = FFI()
                dl.cdef('void *dlopen(const char *, int); int dlclose(void *);')
                st['dl'] = (dl, dl.dlopen(None))
            h = st['dl'][1].dlopen(self.path.encode(), self.ffi.RTLD_NOW)
            if not h:
                raise RuntimeError('harness: C dlopen(%r) failed' % self.path)
            self.lib = self.ffi.dlopen(h)
            self.nodelete = False
        if sib == 'after':
            self.sib = self.ffi.dlopen(self.path)
        self.failed = set()      # names whose access failed before the close (missing symbols)
        self.val = dict(INIT)
        self.arr = list(range(8))
        self.pt = {'x': 3, 'y': 4}
        self.ptr_null = False
        self.touched = {}        # name -> set of prior uses
        self.fn = {}
        self.log = []
        self.step_no = 0

    # -- bookkeeping
    def bad(self, mech, msg):
        self.rep.bad(mech, '%s: %s | history seed %d, last steps %r' %
                     (self.mode + ('' if self.how == 'name' else ' (opened from a void* handle)'), msg, self.seed, self.log[-6:]), self.seed)

    def mark(self, phase, op, name):
        self.step_no += 1
        self.log.append((phase, op, name))
        os.write(self.crumb, ('%d %s %s %s %s %d\n' % (self.seed, self.mode, phase, op, name,
                                                      self.step_no)).encode())

    def touch(self, name, how):
        self.touched.setdefault(name, set()).add(how)

    def mapped(self):
        with open('/proc/self/maps') as f:
            return os.path.basename(self.path) in f.read()

    # -- before the close: the library is used and compared with the model
    def expect(self, what, got, want):
        if got != want:
            self.bad('harness-model-mismatch-before-close', '%s = %r, model %r' % (what, got, want))

    def fetch(self, name):
        f = getattr(self.lib, name)
        self.touch(name, 'fetch')
        self.fn[name] = f
        return f

    def pre_step(self):
        rnd, ffi, lib = self.rnd, self.ffi, self.lib
        op = rnd.choice(['fetch', 'call', 'call', 'read', 'read', 'write', 'write', 'compound',
                         'compound', 'addr', 'const', 'dir', 'badwrite', 'missing', 'vars',
                         'sibling', 'sibling'])
        if op == 'sibling' and self.sib is None:
            op = 'read'
        if op == 'sibling':
            self.sibling_step('pre')
        elif op == 'badwrite':
            name, v = rnd.choice(BADWRITES)
            self.mark('pre', op, name)
            try:
                setattr(lib, name, v)
                self.expect('invalid write lib.%s = %r raised' % (name, v), False, True)
            except (TypeError, OverflowError, IndexError, ValueError):
                pass
            self.touch(name, 'badwrite')
            if name in self.val:
                self.expect('lib.%s after a refused write' % name, getattr(lib, name), self.val[name])
            elif name == 'g_arr':
                self.expect('list(lib.g_arr) after a refused write', list(lib.g_arr), self.arr)
                self.touch(name, 'read')
        elif op == 'missing':
            name, how = rnd.choice([(MISSING_FN, 'fetch'), (MISSING_FN, 'addr'), (MISSING_VAR, 'read'),
                                    (MISSING_VAR, 'write'), (MISSING_VAR, 'addr')])
            self.mark('pre', op + '-' + how, name)
            try:
                if how in ('fetch', 'read'):
                    getattr(lib, name)
                elif how == 'write':
                    setattr(lib, name, 1)
                else:
                    ffi.addressof(lib, name)
                self.expect('access to the missing symbol %s raised' % name, False, True)
            except Exception as e:
                if isinstance(e, (SystemError, MemoryError)):
                    raise
            self.failed.add(name)
        elif op == 'vars':
            self.mark('pre', op, '-')
            try:
                d = vars(lib)
                self.rep.stat('pre_vars_returned_' + self.mode)
            except Exception as e:
                if isinstance(e, (SystemError, MemoryError)):
                    raise
                d = None
                self.rep.stat('pre_vars_raised_' + self.mode)
            if self.mode == 'outofline':
                # builds (= fetches and caches) every global up to the first missing symbol
                for name in FUNCS + VARS + CONSTS:
                    self.touch(name, 'vars')
        elif op == 'fetch':
            name = rnd.choice(FUNCS)
            self.mark('pre', op, name)
            f = self.fetch(name)
            self.expect('typeof(%s).kind' % name, ffi.typeof(f).kind, 'function')
        elif op == 'call':
            name = rnd.choice(FUNCS[:8])
            self.mark('pre', op, name)
            f = self.fetch(name)
            a, b = rnd.randint(-1000, 1000), rnd.randint(-1000, 1000)
            if name == 'f_add':
                self.expect('f_add', f(a, b), a + b)
            elif name == 'f_half':
                self.expect('f_half', f(a), a / 2)
            elif name == 'f_neg':
                self.expect('f_neg', f(a << 40), -(a << 40))
            elif name == 'f_get_int':
                self.expect('f_get_int()', f(), self.val['g_int'])
            elif name == 'f_set_int':
                f(a)
                self.val['g_int'] = a
            elif name == 'f_sum_arr':
                self.expect('f_sum_arr()', f(), sum(self.arr))
            elif name == 'f_pt_x':
                self.expect('f_pt_x()', f(), self.pt['x'])
            else:
                self.expect('f_strlen', f(b'a' * (a % 50)), a % 50)
        elif op == 'read':
            name = rnd.choice(SCALARS)
            self.mark('pre', op, name)
            self.expect('lib.' + name, getattr(lib, name), self.val[name])
            self.touch(name, 'read')
        elif op == 'write':
            name = rnd.choice(SCALARS)
            self.mark('pre', op, name)
            v = rand_value(rnd, name)
            setattr(lib, name, v)
            self.val[name] = v
            self.touch(name, 'write')
            self.expect('lib.%s after write' % name, getattr(lib, name), v)
        elif op == 'compound':
            name = rnd.choice(COMPOUND)
            self.mark('pre', op, name)
            i = rnd.randrange(8)
            if name == 'g_arr':
                r = rnd.random()
                if r < 0.3:
                    self.arr = rand_value(rnd, name)
                    lib.g_arr = self.arr
                    self.touch(name, 'write')
                elif r < 0.6:
                    self.arr[i] = rnd.randint(-10 ** 6, 10 ** 6)
                    lib.g_arr[i] = self.arr[i]
                self.expect('list(lib.g_arr)', list(lib.g_arr), self.arr)
            elif name == 'g_buf':
                self.expect('string(lib.g_buf)', ffi.string(lib.g_buf), b'hello')
            elif name == 'g_ptr':
                if rnd.random() < 0.3:
                    self.ptr_null = rnd.random() < 0.5
                    lib.g_ptr = ffi.NULL if self.ptr_null else ffi.cast('int *', lib.g_arr)
                    self.touch('g_arr', 'read')
                    self.touch(name, 'write')
                if self.ptr_null:
                    self.expect('lib.g_ptr', lib.g_ptr, ffi.NULL)
                else:
                    self.expect('lib.g_ptr[%d]' % i, lib.g_ptr[i], self.arr[i])
            elif name == 'g_pt':
                r = rnd.random()
                if r < 0.3:
                    self.pt = rand_value(rnd, name)
                    lib.g_pt = self.pt
                    self.touch(name, 'write')
                elif r < 0.6:
                    self.pt['y'] = i
                    lib.g_pt.y = i
                self.expect('lib.g_pt', (lib.g_pt.x, lib.g_pt.y), (self.pt['x'], self.pt['y']))
            elif name == 'g_pts':
                self.expect('lib.g_pts[%d].y' % (i % 3), lib.g_pts[i % 3].y, 2 * (i % 3) + 2)
            else:
                self.expect('lib.g_fp(2, %d)' % i, lib.g_fp(2, i), 2 + i)
            self.touch(name, 'read')
        elif op == 'addr':
            name = rnd.choice(FUNCS + VARS)
            self.mark('pre', op, name)
            p = ffi.addressof(lib, name)
            self.touch(name, 'addr')
            if name in self.val and name != 'g_bool':
                self.expect('addressof(lib, %s)[0]' % name, p[0], self.val[name])
            elif name == 'f_add':
                self.expect('addressof(lib, f_add)(1, 2)', p(1, 2), 3)
        elif op == 'const':
            self.mark('pre', op, 'K')
            self.expect('K_INT, E_B', (lib.K_INT, lib.E_B), (42, 7))
            if self.mode == 'outofline' and rnd.random() < 0.5:
                k = rnd.choice(CONSTS)
                if k == 'K_DBL':
                    self.expect('K_DBL', lib.K_DBL, 2.5)
                elif k == 'K_SI':
                    self.expect('K_SI', lib.K_SI, 77)
                else:
                    self.expect('K_PT', (lib.K_PT.x, lib.K_PT.y), (8, 9))
                self.touch(k, 'read')
        else:
            self.mark('pre', op, '-')
            d = dir(lib)
            self.expect('dir(lib) has names', 'f_add' in d and 'g_int' in d, True)
        self.rep.stat('pre_' + op)

    # -- the sibling lib object (never closed before the end of the history)
    def sibling_probe(self):
        try:
            return self.sib.g_sh == self.val['g_sh']
        except Exception:
            return False

    def sibling_step(self, phase):
        rnd, sib = self.rnd, self.sib
        what = rnd.choice(['read', 'read', 'write', 'fetch', 'addr'])
        name = rnd.choice(FUNCS) if what == 'fetch' else rnd.choice(SCALARS)
        self.mark(phase, 'sibling-' + what, name)
        try:
            if what == 'read':
                ok = getattr(sib, name) == self.val[name]
            elif what == 'write':
                v = rand_value(rnd, name)
                setattr(sib, name, v)
                self.val[name] = v
                ok = getattr(sib, name) == v
            elif what == 'fetch':
                ok = self.ffi.typeof(getattr(sib, name)).kind == 'function'
            else:
                p = self.ffi.addressof(sib, name)
                ok = name == 'g_bool' or p[0] == self.val[name]
        except Exception as e:
            if phase == 'pre':
                raise
            self.rep.stat('%s:sibling_after_close_raised_%s' % (self.mode, type(e).__name__))
            return
        if phase == 'pre':
            self.expect('sibling %s %s agrees with the model' % (what, name), ok, True)
            self.rep.stat('pre_sibling_' + what)
        else:
            self.rep.stat('%s:sibling_after_close_%s' % (self.mode, 'ok' if ok else 'other_value'))

    # -- after the close
    def entry(self, name):
        """the post-close read / fetch of lib.<name> through one of the equivalent entry points"""
        lib, how = self.lib, self.rnd.choice(['plain', 'plain', 'default', 'hasattr'])
        self.rep.stat('post_entry_' + how)
        if how == 'plain':
            return lambda: getattr(lib, name)

        def thunk():
            r = getattr(lib, name, NOTHING) if how == 'default' else (hasattr(lib, name) or NOTHING)
            if r is NOTHING:
                raise Refused(how)
            return r
        return thunk

    def demand_raises(self, op, name, thunk):
        prior = '+'.join(sorted(self.touched.get(name, ()))) or (
            'failed' if name in self.failed else 'untouched')
        self.rep.case((self.mode, op, name, prior), nontrivial=bool(self.touched),
                      sample={'mode': self.mode, 'op': op, 'name': name, 'prior_use': prior,
                              'steps_before_close': self.nbefore})
        try:
            r = thunk()
        except (SystemError, MemoryError) as e:
            self.bad('%s-after-close-wrong-exception' % op,
                     '%s %s (prior use %s) raised %s: %s' % (op, name, prior, type(e).__name__, e))
        except Exception as e:
            self.rep.stat('%s:%s_raised_%s' % (self.mode, op, type(e).__name__))
        else:
            self.bad('%s-after-close-no-error' % op, '%s %s (prior use %s) after dlclose returned '
                     '%.80r instead of raising' % (op, name, prior, r))

    def survive(self, what, thunk):
        try:
            thunk()
            self.rep.stat('%s:%s_returned' % (self.mode, what))
        except (SystemError, MemoryError) as e:
            self.bad('%s-after-close-wrong-exception' % what, '%s raised %s: %s' %
                     (what, type(e).__name__, e))
        except Exception as e:
            self.rep.stat('%s:%s_raised_%s' % (self.mode, what, type(e).__name__))

    def close(self, which):
        self.mark('post', which, '-')
        self.rep.case((self.mode, which, len(self.touched) > 0), nontrivial=bool(self.touched))
        sib_ok = which == 'close-again' and self.sib is not None and self.sibling_probe()
        try:
            r = self.ffi.dlclose(self.lib)
        except Exception as e:
            self.bad(which + '-raised', 'ffi.dlclose(lib) raised %s: %s' % (type(e).__name__, e))
        else:
            if r is not None:
                self.bad(which + '-result', 'ffi.dlclose(lib) returned %r' % (r,))
            self.rep.stat('%s:%s_ok' % (self.mode, which))
        if sib_ok:
            # 'closing again is harmless': a lib object opened separately on the same file was
            # usable right before the second close, so it still is (if the image was unmapped
            # under it the probe dies: attributed through the breadcrumb)
            self.mark('post', 'close-again-sibling-probe', 'g_sh')
            self.rep.case((self.mode, 'close-again-sibling'), nontrivial=True)
            if self.sibling_probe() and self.mapped():
                self.rep.stat('%s:sibling_ok_after_close-again' % self.mode)
            else:
                self.bad('close-again-harmed-open-sibling', 'a lib object opened separately on the same '
                         'file read g_sh correctly before ffi.dlclose(lib) was repeated on the closed '
                         'lib and does not any more (image mapped: %r)' % self.mapped())

    def post_step(self):
        rnd, ffi, lib = self.rnd, self.ffi, self.lib
        op = rnd.choice(['read', 'read', 'write', 'write', 'fetch', 'fetch', 'addr', 'addr',
                         'close-again', 'const', 'other', 'vars', 'sibling', 'sibling'])
        if op == 'sibling' and self.sib is None:
            op = 'read'
        if op == 'sibling':
            self.sibling_step('post')
        elif op == 'vars':
            self.mark('post', op, '-')
            self.rep.case((self.mode, op, len(self.touched) > 0), nontrivial=bool(self.touched))
            try:
                d = vars(lib)
            except (SystemError, MemoryError) as e:
                self.bad('vars-after-close-wrong-exception', 'vars(lib) raised %s: %s' %
                         (type(e).__name__, e))
            except Exception as e:
                self.rep.stat('%s:vars_raised_%s' % (self.mode, type(e).__name__))
            else:
                new = sorted(n for n in d if n in FUNCS + VARS + CONSTS + [MISSING_FN, MISSING_VAR]
                             and n not in self.touched)
                if new:
                    self.bad('vars-after-close-fetched-new-names', 'vars(lib) after dlclose returned a '
                             'dict with %r, none of which was touched before the close' % (new[:6],))
                self.rep.stat('%s:vars_returned_nothing_new' % self.mode)
        elif op == 'read':
            name = rnd.choice(VARS + [MISSING_VAR])
            self.mark('post', op, name)
            self.demand_raises(op, name, self.entry(name))
        elif op == 'write':
            name = rnd.choice(VARS + [MISSING_VAR])
            v = 1 if name == MISSING_VAR else rand_value(rnd, name)
            if v is None:
                v = ffi.NULL
            self.mark('post', op, name)
            self.demand_raises(op, name, lambda: setattr(lib, name, v))
        elif op == 'fetch':
            name = rnd.choice(FUNCS + [MISSING_FN])
            self.mark('post', op, name)
            if name in self.touched:
                self.survive('refetch', lambda: getattr(lib, name))
            else:
                self.demand_raises(op, name, self.entry(name))
        elif op == 'addr':
            name = rnd.choice(FUNCS + VARS + [MISSING_FN, MISSING_VAR])
            self.mark('post', op, name)
            if name in self.touched:
                self.survive('addressof-touched', lambda: ffi.addressof(lib, name))
            else:
                self.demand_raises(op, name, lambda: ffi.addressof(lib, name))
        elif op == 'close-again':
            self.close(op)
        elif op == 'const' and self.mode == 'outofline':
            name = rnd.choice(CONSTS)
            self.mark('post', 'read-const', name)
            self.demand_raises('read-const', name, self.entry(name))
        else:
            self.mark('post', 'other', '-')
            self.survive('int-constant', lambda: (lib.K_INT, lib.E_B))
            self.survive('dir', lambda: dir(lib))

    def run(self):
        self.nbefore = self.rnd.choice([0, 1, 2, 5, 10, 25, self.rnd.randint(0, 25)])
        for _ in range(self.nbefore):
            self.pre_step()
        self.fn.clear()
        was_mapped = self.mapped()
        self.close('close')
        self.rep.stat('histories_' + self.mode)
        self.rep.stat('histories_opened_by_' + self.how)
        self.rep.stat('lib_unmapped_by_close' if was_mapped and not self.mapped() else
                      'lib_kept_mapped_by_open_sibling' if self.sib is not None else
                      'lib_kept_mapped_by_RTLD_NODELETE' if self.nodelete else
                      'lib_still_mapped_after_close')
        if self.sib is not None:
            self.rep.stat('histories_with_sibling_' + self.mode)
        for _ in range(self.rnd.randint(6, 25)):
            self.post_step()
        if self.sib is not None:
            # closed explicitly: an in-line ffi keeps its lib objects alive for ever
            self.mark('post', 'sibling-close', '-')
            self.ffi.dlclose(self.sib)
            self.sib = None
            for _ in range(self.rnd.randint(0, 3)):
                self.post_step()
        self.mark('post', 'drop', '-')
        self.lib = None


def child_case(st, case):
    import gc
    rep = core.ChildRep()
    crumb = os.open(case['crumb'], os.O_WRONLY | os.O_CREAT | os.O_TRUNC, 0o644)
    try:
        for seed in case['seeds']:
            h = None
            try:
                h = H(st, rep, seed, crumb)
                h.run()
            except Exception:
                import traceback
                rep.bad('harness-exception', 'history seed %d: %s' % (seed,
                                                                     traceback.format_exc()[-900:]), seed)
            if h is not None:
                path = h.path
                del h
                gc.collect()
                os.unlink(path)
        os.write(crumb, b'done\n')
    finally:
        os.close(crumb)
    return rep.result()


# ---------------------------------------------------------------- parent
def last_crumb(case):
    try:
        with open(case['crumb']) as f:
            lines = f.read().split('\n')
    except OSError:
        return None
    lines = [l for l in lines if l]
    if not lines or lines[-1] == 'done':
        return None
    p = lines[-1].split()
    return {'seed': int(p[0]), 'mode': p[1], 'phase': p[2], 'op': p[3], 'name': p[4], 'step': p[5]}


def crash_text(obs):
    san, err = obs.get('_san') or '', obs.get('_stderr') or ''
    k = san.rfind('ERROR: AddressSanitizer')
    i = err.rfind('Fatal Python error')
    return (san[max(0, k - 12):][:900] + '\n' + err[max(0, i):][:900]).strip()


def judge_case(ctx, case, obs):
    """returns the seeds of the case that have to be run again (the child died in another
    history of the batch, whose report was lost)"""
    if isinstance(obs, dict) and '_crash' in obs:
        ctx.count('child_crashes')
        cr = last_crumb(case)
        if obs.get('_san'):
            ctx.sanitizer(obs['_san'], case, deciding=False)
        if cr is None or cr['seed'] not in case['seeds']:
            ctx.violation('crash:unattributed', 'child died (rc=%s) outside a history step\n%s' %
                          (obs['_crash'], crash_text(obs)), case)
            return []
        ctx.violation('crash:%s:%s-%s' % (cr['mode'], cr['phase'], cr['op']),
                      'child process died (rc=%s) in history seed %d (%s) at step %s: %s %s %s\n%s' %
                      (obs['_crash'], cr['seed'], cr['mode'], cr['step'], cr['phase'], cr['op'],
                       cr['name'], crash_text(obs)), {'seeds': [cr['seed']], 'no': 'replay'})
        return [s for s in case['seeds'] if s != cr['seed']]
    if core.std_obs_check(ctx, case, obs):
        core.absorb(ctx, case, obs, lambda seed: {'seeds': [seed], 'no': 'replay'})
    return []


def run(ctx, cases=None):
    core.build.backend('asan')
    if cases is None:
        setup, cases = generate(ctx)
    else:
        setup = make_setup(ctx)
    nhist = sum(len(c['seeds']) for c in cases)
    # chunks, so that a tree on which most histories kill the child is reported after a few
    # deaths (each costs a child restart) instead of after one death per history
    queue, chunk, rnd = list(cases), max(20, len(cases) // 8), 0
    while queue and ctx.counters.get('child_crashes', 0) < MAX_CRASHES:
        cases, queue, rnd = queue[:chunk], queue[chunk:], rnd + 1
        obs = core.run_cases(ctx, 'c37', setup, cases, variant='asan', timeout=TIMEOUT)
        for c, o in zip(cases, obs):
            rest = judge_case(ctx, c, o)
            if rest:
                queue.append(make_case(ctx, rest, '%s_r%d' % (c['no'], rnd)))
    if queue:
        ctx.note('stopped after %d child deaths: %d histories not run' %
                 (ctx.counters.get('child_crashes', 0), sum(len(c['seeds']) for c in queue)))
        if not ctx.violations and not ctx.known_hits:
            ctx.inconclusive('histories not run after child deaths')
    ctx.count('histories_generated', nhist)
    done = ctx.counters.get('histories_inline', 0) + ctx.counters.get('histories_outofline', 0)
    if done and not ctx.counters.get('lib_unmapped_by_close'):
        ctx.note('dlclose never unmapped the library copy: the survival oracle had no teeth, only '
                 'the exception oracle decided')


def replay(ctx, data):
    case = data.get('case') or {}
    if not case.get('seeds'):
        print('replay file has no history seeds')
        return
    run(ctx, [make_case(ctx, case['seeds'], 'replay')])
    print('replayed %d histories: counters %r' % (len(case['seeds']), dict(sorted(ctx.counters.items()))))
