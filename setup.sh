#!/bin/sh
# MANIFEST.setup_cmd: offline; installs icontract/deal beside the repo's interpreter
# (git-ignored .deps) and pre-builds the sanitized backends from /repo's working tree.
cd "$(dirname "$0")" || exit 1
mkdir -p .deps evidence replays
if [ ! -d .deps/icontract ]; then
  /venv/bin/pip install -q --no-index --find-links /opt/veriftools/wheels --target .deps icontract deal >/dev/null 2>&1 || echo "setup: icontract/deal not installed (checks fall back to plain wrappers)"
fi
PYTHONPATH=. /venv/bin/python vlib/build.py asan plain tsan
