/* Stand-alone driver for search_sorted() / search_in_*() / parse_c_type() of
 * src/c/parse_c_type.c (property C25).
 *
 * Built by props/c25.py from the repository's current tree:
 *   clang -g -O1 -fsanitize=address,undefined -I<python include> -I<repo>/src/c c25_search.c
 *         -lpython3.12        (commontypes.c, needed by parse_c_type(), refers to CPython)
 * (with -DC25_FUZZ -fsanitize=fuzzer,... it is a libFuzzer target instead).
 *
 * Every table name lives in its own exact-size malloc() block and every search
 * key is an exact-size block WITHOUT a NUL (the real callers pass a token inside
 * a longer string), so the ASan red zones decide any read past name+NUL or past
 * search_len.  Each key is searched a second time embedded in a longer
 * identifier ("<key>_9"), as a token followed by more text.
 *
 * Input file (mode 1, oracle = the Python parent):
 *   T <n>            a table; n lines follow, in Python sorted() order
 *   Q <m>            m lines "<expected index or -1> <name>" for the last table
 *   E <k>            exhaustive: all subsets of size 1..k of the last table,
 *                    every name of the table as key, oracle = linear scan
 */
#include <Python.h>
#include <stdint.h>
#include <stdio.h>
#include <stdlib.h>
#include <string.h>

#include "parse_c_type.c"
#include "commontypes.c"

static struct _cffi_global_s *t_globals;
static struct _cffi_struct_union_s *t_su;
static struct _cffi_enum_s *t_enums;
static struct _cffi_typename_s *t_typenames;
static struct _cffi_type_context_s tctx;
static long n_calls, n_found, n_absent, n_parse, n_bad;
static int cur_table = -1, in_exhaustive;

static char *exact(const char *s, size_t n, int nul)
{
    char *p = malloc(n + nul ? n + nul : 1);
    memcpy(p, s, n);
    if (nul) p[n] = 0;
    return p;
}

static void set_table(char **names, int n)
{
    int i;
    free(t_globals); free(t_su); free(t_enums); free(t_typenames);
    t_globals = malloc(n * sizeof(*t_globals));
    t_su = malloc(n * sizeof(*t_su));
    t_enums = malloc(n * sizeof(*t_enums));
    t_typenames = malloc(n * sizeof(*t_typenames));
    for (i = 0; i < n; i++) {
        memset(&t_globals[i], 0, sizeof(*t_globals));
        memset(&t_su[i], 0, sizeof(*t_su));
        memset(&t_enums[i], 0, sizeof(*t_enums));
        t_globals[i].name = t_su[i].name = t_enums[i].name = t_typenames[i].name = names[i];
        t_globals[i].type_op = _CFFI_OP(_CFFI_OP_GLOBAL_VAR, 0);
        t_su[i].type_index = t_enums[i].type_index = t_typenames[i].type_index = 0;
        t_enums[i].enumerators = "";
    }
    memset(&tctx, 0, sizeof(tctx));
    tctx.globals = t_globals; tctx.struct_unions = t_su;
    tctx.enums = t_enums; tctx.typenames = t_typenames;
    tctx.num_globals = tctx.num_struct_unions = tctx.num_enums = tctx.num_typenames = n;
}

static void bad(const char *what, int got, int expected, const char *key, size_t len)
{
    int i;
    if (n_bad++ >= 50)
        return;
    printf("BAD %s table=%d got=%d expected=%d key=%.*s", what, cur_table, got, expected,
           (int)len, key);
    for (i = 0; in_exhaustive && i < tctx.num_globals; i++)     /* the subset that is the table */
        printf("%s%s", i ? "," : " subset=", tctx.globals[i].name);
    printf("\n");
}

static int is_ident(const char *s, size_t n)
{
    size_t i;
    if (n == 0 || !is_ident_first(s[0])) return 0;
    for (i = 1; i < n; i++) if (!is_ident_next(s[i])) return 0;
    return 1;
}

/* the lookup as parse_c_type() performs it: "<prefix><key>" must give the
   opcode <op, expected index>, or, if absent, must not give that opcode kind */
static void check_parse(const char *prefix, int op, const char *key, size_t len, int expected)
{
    struct _cffi_parse_info_s info;
    _cffi_opcode_t out[8];
    size_t pl = strlen(prefix);
    char *text = malloc(pl + len + 1);
    int r, got = -1;
    memcpy(text, prefix, pl); memcpy(text + pl, key, len); text[pl + len] = 0;
    info.ctx = &tctx; info.output = out; info.output_size = 8;
    info.error_location = 0; info.error_message = NULL;
    r = parse_c_type(&info, text);
    if (r >= 0 && r < 8 && _CFFI_GETOP(out[r]) == op)
        got = (int)_CFFI_GETARG(out[r]);
    n_parse++;
    if (got != expected)
        bad(op == _CFFI_OP_TYPENAME ? "parse:typename" : op == _CFFI_OP_ENUM ? "parse:enum" :
            "parse:struct", got, expected, key, len);
    free(text);
}

static void query(const char *name, size_t len, int expected, int with_parse)
{
    char *key = exact(name, len, 0), *emb = malloc(len + 2);
    int k, r[8];
    memcpy(emb, name, len); emb[len] = '_'; emb[len + 1] = '9';
    for (k = 0; k < 2; k++) {
        const char *s = k ? emb : key;
        r[4 * k + 0] = search_in_globals(&tctx, s, len);
        r[4 * k + 1] = search_in_struct_unions(&tctx, s, len);
        r[4 * k + 2] = search_in_enums(&tctx, s, len);
        r[4 * k + 3] = search_in_typenames(&tctx, s, len);
    }
    for (k = 0; k < 8; k++) {
        static const char *what[4] = {"search:globals", "search:struct_unions", "search:enums",
                                      "search:typenames"};
        n_calls++;
        if (r[k] != expected)
            bad(what[k & 3], r[k], expected, name, len);
    }
    if (expected >= 0) n_found++; else n_absent++;
    if (with_parse && is_ident(name, len)) {
        check_parse("", _CFFI_OP_TYPENAME, name, len, expected);
        check_parse("struct ", _CFFI_OP_STRUCT_UNION, name, len, expected);
        check_parse("enum  ", _CFFI_OP_ENUM, name, len, expected);
    }
    free(key); free(emb);
}

/* all subsets of size 1..kmax of the table `all` (which is in Python order, so
   every subsequence is too); every name of `all` is a key */
static long n_subsets;
static void exhaustive(char **all, int n, int kmax)
{
    int idx[8], k, i, j;
    char *sub[8];
    if (kmax > 8) kmax = 8;
    for (k = 1; k <= kmax && k <= n; k++) {
        for (i = 0; i < k; i++) idx[i] = i;
        for (;;) {
            for (i = 0; i < k; i++) sub[i] = all[idx[i]];
            set_table(sub, k);
            n_subsets++;
            for (j = 0; j < n; j++) {
                int expected = -1;
                for (i = 0; i < k; i++) if (idx[i] == j) expected = i;
                query(all[j], strlen(all[j]), expected, 0);
            }
            for (i = k - 1; i >= 0 && idx[i] == n - k + i; i--) ;
            if (i < 0) break;
            idx[i]++;
            for (j = i + 1; j < k; j++) idx[j] = idx[j - 1] + 1;
        }
    }
}

#ifndef C25_FUZZ
static char *readline_(FILE *f, char *buf, size_t sz)
{
    size_t n;
    if (!fgets(buf, sz, f)) return NULL;
    n = strlen(buf);
    if (n && buf[n - 1] == '\n') buf[n - 1] = 0;
    return buf;
}

int main(int argc, char **argv)
{
    static char line[4096];
    char **names = NULL;
    int n = 0, i, ntables = 0;
    FILE *f = argc > 1 ? fopen(argv[1], "r") : NULL;
    if (!f) { fprintf(stderr, "usage: c25_search FILE\n"); return 2; }
    while (readline_(f, line, sizeof(line))) {
        int m = atoi(line + 1);
        if (line[0] == 'T') {
            for (i = 0; i < n; i++) free(names[i]);
            free(names);
            n = m; ntables++; cur_table++;
            names = malloc((n ? n : 1) * sizeof(char *));
            for (i = 0; i < n; i++) {
                if (!readline_(f, line, sizeof(line))) return 2;
                names[i] = exact(line, strlen(line), 1);
            }
            set_table(names, n);
        }
        else if (line[0] == 'Q') {
            for (i = 0; i < m; i++) {
                char *sp;
                if (!readline_(f, line, sizeof(line)) || !(sp = strchr(line, ' '))) return 2;
                query(sp + 1, strlen(sp + 1), atoi(line), 1);
            }
        }
        else if (line[0] == 'E') {
            in_exhaustive = 1;
            exhaustive(names, n, m);
            in_exhaustive = 0;
            set_table(names, n);
        }
        else
            return 2;
    }
    printf("DONE tables=%d subsets=%ld calls=%ld found=%ld absent=%ld parses=%ld bad=%ld\n",
           ntables, n_subsets, n_calls, n_found, n_absent, n_parse, n_bad);
    return 0;
}
#else
/* libFuzzer: the input, split at bytes < 0x21, is a set of names; sorted in C
   string order (what Python's sorted() gives for the same byte strings) it is the
   table; keys are every name and every name cut / extended by one byte; the
   oracle is a linear scan. */
static int cmp_(const void *a, const void *b)
{
    return strcmp(*(char *const *)a, *(char *const *)b);
}

int LLVMFuzzerTestOneInput(const uint8_t *data, size_t size)
{
    char *names[64], *keys[200];
    int n = 0, nk = 0, i, j;
    size_t p = 0;
    while (p < size && n < 64) {
        size_t q = p;
        while (q < size && data[q] >= 0x21) q++;
        if (q > p) {
            names[n] = exact((const char *)data + p, q - p, 1);
            for (j = 0; j < n; j++) if (!strcmp(names[j], names[n])) break;
            if (j < n) free(names[n]); else n++;
        }
        p = q + 1;
    }
    qsort(names, n, sizeof(char *), cmp_);
    set_table(names, n);
    for (i = 0; i < n && nk + 3 <= 200; i++) {
        size_t l = strlen(names[i]);
        char *e = malloc(l + 2);
        memcpy(e, names[i], l); e[l] = (char)(size ? data[size - 1] | 0x21 : 'a'); e[l + 1] = 0;
        keys[nk++] = exact(names[i], l, 1);
        keys[nk++] = exact(names[i], l - 1, 1);
        keys[nk++] = e;
    }
    for (i = 0; i < nk; i++) {
        int expected = -1;
        for (j = 0; j < n; j++) if (!strcmp(names[j], keys[i])) expected = j;
        query(keys[i], strlen(keys[i]), expected, 0);   /* names may be C keywords here */
        free(keys[i]);
    }
    for (i = 0; i < n; i++) free(names[i]);
    fflush(stdout);
    if (n_bad) { fprintf(stderr, "C25-HARNESS: lookup differs from the linear scan\n"); abort(); }
    return 0;
}
#endif
