/* TSan launcher: LD_PRELOADing the TSan runtime into python segfaults, so link
   a launcher against libpython with -fsanitize=thread instead. */
#include <Python.h>
int main(int argc, char **argv) { return Py_BytesMain(argc, argv); }
