/* C28 real-process driver: dlopen()s four CFFI-embedded libraries and races
   their first calls from <nth> threads; with <late> != 0 the threads other than
   thread 0 start after a pseudo-random delay of 0..175 ms and make their first call
   into the library thread 0 calls first (first calls that arrive while another
   thread runs the init code); <late> == 2: that library is libR, and the odd threads
   make their first call as soon as the init log says that libR's init code has
   returned from the call of its own function (bounded wait).
   usage: drv libA libB libF libR seed nth ncalls late initlog */
#include <stdio.h>
#include <dlfcn.h>
#include <pthread.h>
#include <stdlib.h>
#include <unistd.h>
#include <string.h>
typedef int (*fn_t)(int);
static fn_t fns[4];
static int delay_us[16], late;
static const char *logfile;
static void wait_for_own_call(void){ int n; char buf[4096]; for(n=0;n<5000;n++){ FILE*f=fopen(logfile,"r"); if(f){ size_t k=fread(buf,1,sizeof(buf)-1,f); buf[k]=0; fclose(f); if(strstr(buf,"after-own-call")) return; } usleep(1000); } }
static int nth, ncalls, which[16][8], res[16][8];
static pthread_barrier_t bar;
static void *worker(void *arg){ long t=(long)arg; int i; pthread_barrier_wait(&bar); if(late==2&&t>0&&(t&1)) wait_for_own_call(); else if(delay_us[t]) usleep(delay_us[t]); for(i=0;i<ncalls;i++) res[t][i]=fns[which[t][i]](t*10+i); return NULL; }
int main(int argc,char**argv){
  const char *names[4]={"fnA","fnB","fnF","fnR"}; int i,t; pthread_t th[16]; unsigned seed=atoi(argv[5]);
  for(i=0;i<4;i++){ void*h=dlopen(argv[1+i],RTLD_NOW|RTLD_GLOBAL); if(!h){printf("dlopen %s\n",dlerror());return 2;} fns[i]=(fn_t)dlsym(h,names[i]); }
  nth=atoi(argv[6]); ncalls=atoi(argv[7]); late=atoi(argv[8]); logfile=argc>9?argv[9]:"/nonexistent";
  for(t=0;t<nth;t++)for(i=0;i<ncalls;i++){ seed=seed*1103515245u+12345u; which[t][i]=(seed>>16)%4; }
  if(late==2)which[0][0]=3;
  if(late)for(t=1;t<nth;t++){ seed=seed*1103515245u+12345u; delay_us[t]=((seed>>16)%8)*25000; which[t][0]=which[0][0]; }
  pthread_barrier_init(&bar,NULL,nth);
  for(t=0;t<nth;t++)pthread_create(&th[t],NULL,worker,(void*)(long)t);
  for(t=0;t<nth;t++)pthread_join(th[t],NULL);
  for(t=0;t<nth;t++)for(i=0;i<ncalls;i++)printf("R %d %d %d %d\n",t,i,which[t][i],res[t][i]);
  return 0; }
