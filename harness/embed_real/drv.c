/* C28 real-process driver: dlopen()s three CFFI-embedded libraries and races
   their first calls from <nth> threads.  usage: drv libA libB libF seed nth ncalls */
#include <stdio.h>
#include <dlfcn.h>
#include <pthread.h>
#include <stdlib.h>
typedef int (*fn_t)(int);
static fn_t fns[3];
static int nth, ncalls, which[16][8], res[16][8];
static pthread_barrier_t bar;
static void *worker(void *arg){ long t=(long)arg; int i; pthread_barrier_wait(&bar); for(i=0;i<ncalls;i++) res[t][i]=fns[which[t][i]](t*10+i); return NULL; }
int main(int argc,char**argv){
  const char *names[3]={"fnA","fnB","fnF"}; int i,t; pthread_t th[16]; unsigned seed=atoi(argv[4]);
  for(i=0;i<3;i++){ void*h=dlopen(argv[1+i],RTLD_NOW|RTLD_GLOBAL); if(!h){printf("dlopen %s\n",dlerror());return 2;} fns[i]=(fn_t)dlsym(h,names[i]); }
  nth=atoi(argv[5]); ncalls=atoi(argv[6]);
  for(t=0;t<nth;t++)for(i=0;i<ncalls;i++){ seed=seed*1103515245u+12345u; which[t][i]=(seed>>16)%3; }
  pthread_barrier_init(&bar,NULL,nth);
  for(t=0;t<nth;t++)pthread_create(&th[t],NULL,worker,(void*)(long)t);
  for(t=0;t<nth;t++)pthread_join(th[t],NULL);
  for(t=0;t<nth;t++)for(i=0;i<ncalls;i++)printf("R %d %d %d %d\n",t,i,which[t][i],res[t][i]);
  return 0; }
