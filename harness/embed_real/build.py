"""C28 real-process part: builds four libraries with ffi.embedding_api() against the
real libpython: _c28A and _c28B with slow init code, _c28F whose init code raises,
_c28R whose init code calls its own exported function through C and then goes on.
usage: python build.py <init log file>"""
import cffi, sys
LOG = sys.argv[1]

INIT = r"""
import os, time
fd = os.open(%r, os.O_WRONLY | os.O_APPEND | os.O_CREAT)
os.write(fd, b"init-start %s\n")
time.sleep(0.03)
from %s import ffi, lib
state = {'ready': False}
@ffi.def_extern()
def %s(x):
    return x + 1000 if state['ready'] else -1
%s
time.sleep(0.03)
state['ready'] = True
os.write(fd, b"init-end %s\n"); os.close(fd)
"""


def mk(name, fn, ok=True, extra=None):
    ffi = cffi.FFI()
    ffi.embedding_api("int %s(int);" % fn)
    ffi.embedding_init_code(INIT % (LOG, name, name, fn,
                                    extra or ('' if ok else 'raise ValueError("init fails")'), name))
    ffi.set_source(name, "")
    ffi.compile(verbose=False)


mk('_c28A', 'fnA')
mk('_c28B', 'fnB')
mk('_c28F', 'fnF', False)
mk('_c28R', 'fnR', True, 'lib.fnR(5); os.write(fd, b"after-own-call _c28R\\n")')
