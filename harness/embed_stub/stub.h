/* C28 harness: shared declarations between the two "embedded libraries"
   (lib.c compiled twice) and the stubbed CPython API + driver (stubs.c). */
#ifndef STUB_H
#define STUB_H
enum { EV_PYINIT = 1, EV_INIT_START, EV_INIT_END_OK, EV_INIT_END_FAIL, EV_CALL_PYTHON,
       EV_CALL_ENTER, EV_CALL_RETURN, EV_STARTUP, EV_MUTEX_WAIT, EV_MUTEX_ACQ, EV_MUTEX_REL,
       EV_CAS, EV_GIL_WAIT, EV_GIL_ACQ, EV_START_ENTER, EV_START_RETURN, EV_MUTEX_INIT };
/* operation kinds: 0..3 = call the extern "Python" function with a result of
   4 / 1 / 8 / 24 bytes, 4 = call cffi_start_python() */
#define STUB_NKINDS 4
#define STUB_OP_START 4
void stub_ev(int lib, int kind, int a);
void stub_yield(int lib, int point);
void stub_set_waiting(int w);
void stub_in_extern_python(int lib);
int stub_result_byte(int lib, int arg, int i);
void lib0_call(int kind, int arg, unsigned char *out);
void lib1_call(int kind, int arg, unsigned char *out);
int lib0_start(void);
int lib1_start(void);
#endif
