/* C28 harness: shared declarations between the two "embedded libraries"
   (lib.c compiled twice) and the stubbed CPython API + driver (stubs.c). */
#ifndef STUB_H
#define STUB_H
enum { EV_PYINIT = 1, EV_INIT_START, EV_INIT_END_OK, EV_INIT_END_FAIL, EV_CALL_PYTHON,
       EV_CALL_ENTER, EV_CALL_RETURN, EV_STARTUP, EV_MUTEX_WAIT, EV_MUTEX_ACQ, EV_MUTEX_REL,
       EV_CAS, EV_GIL_WAIT, EV_GIL_ACQ };
enum { BEH_OK = 0, BEH_FAIL, BEH_RECURSE_SELF, BEH_CALL_OTHER };
void stub_ev(int lib, int kind, int a);
void stub_yield(int lib, int point);
int stub_behaviour(int lib);
void stub_set_waiting(int w);
int lib0_call(int arg);
int lib1_call(int arg);
#endif
