/* One "CFFI-embedded library": includes the repository's real _embedding.h
   (found through -I<repo>/src/cffi), with private static state per
   translation unit.  Compile with -DLIBID=0 and -DLIBID=1. */
#include <Python.h>
#include <errno.h>
#include <string.h>
#include <stdio.h>
#include <pthread.h>
#include "stub.h"

#define STR2(x) #x
#define STR(x) STR2(x)
#define CAT2(a, b) a##b
#define CAT(a, b) CAT2(a, b)

struct _cffi_externpy_s { const char *name; size_t size_of_result; void *reserved1, *reserved2; };
static const void *_cffi_exports[30];
#define _CFFI_CPIDX 25
#define _CFFI_MODULE_NAME "lib" STR(LIBID)
#define _CFFI_PYTHON_STARTUP_CODE "init" STR(LIBID)
#define _CFFI_PYTHON_STARTUP_FUNC CAT(stub_startup_, LIBID)
#define _CFFI_UNUSED_FN __attribute__((unused))
#ifndef WITH_THREAD
# define WITH_THREAD
#endif

/* Yield / delay injection and wait-state logging *between* the critical
   sections of the real code: function-like macros around the primitives the
   header uses (a self-referential macro is not re-expanded, so the real
   primitive is still called). */
#define __sync_bool_compare_and_swap(l, o, n) \
    (stub_yield(LIBID, 1), stub_set_waiting(1), \
     (__sync_bool_compare_and_swap(l, o, n) ? (stub_set_waiting(0), stub_ev(LIBID, EV_CAS, 1), 1) : 0))
#define pthread_mutex_lock(m) \
    (stub_ev(LIBID, EV_MUTEX_WAIT, 0), stub_yield(LIBID, 2), stub_set_waiting(2), \
     pthread_mutex_lock(m), stub_set_waiting(0), stub_ev(LIBID, EV_MUTEX_ACQ, 0), 0)
#define pthread_mutex_unlock(m) \
    (stub_ev(LIBID, EV_MUTEX_REL, 0), pthread_mutex_unlock(m), stub_yield(LIBID, 3), 0)
/* the lazy creation of the start-up mutex: delays before and after it */
#define pthread_mutex_init(m, a) \
    (stub_yield(LIBID, 4), stub_ev(LIBID, EV_MUTEX_INIT, 0), pthread_mutex_init(m, a), stub_yield(LIBID, 5), 0)

#include "_embedding.h"

#undef __sync_bool_compare_and_swap
#undef pthread_mutex_lock
#undef pthread_mutex_unlock
#undef pthread_mutex_init

/* what _cffi_backend's cffi_call_python() would be: the "Python function"
   reads its int argument and writes a result of externpy->size_of_result
   bytes, none of them zero (stub_result_byte) */
static void real_call_python(struct _cffi_externpy_s *externpy, char *args)
{
    int arg;
    size_t i;
    memcpy(&arg, args, sizeof(int));
    stub_ev(LIBID, EV_CALL_PYTHON, arg);
    stub_in_extern_python(LIBID);
    for (i = 0; i < externpy->size_of_result; i++)
        args[i] = (char)stub_result_byte(LIBID, arg, (int)i);
}

PyMODINIT_FUNC _CFFI_PYTHON_STARTUP_FUNC(void)
{
    stub_ev(LIBID, EV_STARTUP, 0);
    _cffi_exports[_CFFI_CPIDX] = (const void *)real_call_python;
    return NULL;
}

/* the exported  extern "Python" <T> fn<k>(int)  functions as the code
   generator writes them, for result types of 4, 1, 8 and 24 bytes (int, char,
   long long, a struct); the argument/result buffer has max(8, sizeof(T))
   bytes.  The result bytes are copied to out[]. */
static struct _cffi_externpy_s externs[STUB_NKINDS] = {
    { "fn" STR(LIBID) "_int", 4, 0, 0 },
    { "fn" STR(LIBID) "_char", 1, 0, 0 },
    { "fn" STR(LIBID) "_longlong", 8, 0, 0 },
    { "fn" STR(LIBID) "_struct24", 24, 0, 0 },
};

void CAT(CAT(lib, LIBID), _call)(int kind, int a0, unsigned char *out)
{
    char a[24];
    memset(a, 0x5a, sizeof(a));
    memcpy(a, &a0, sizeof(int));
    stub_ev(LIBID, EV_CALL_ENTER, a0);
    _cffi_call_python(&externs[kind], a);
    memcpy(out, a, externs[kind].size_of_result);
    stub_ev(LIBID, EV_CALL_RETURN, kind);
}

/* the manual entry point: user C code calling cffi_start_python() */
int CAT(CAT(lib, LIBID), _start)(void)
{
    int r;
    stub_ev(LIBID, EV_START_ENTER, 0);
    r = cffi_start_python();
    stub_ev(LIBID, EV_START_RETURN, r);
    return r;
}
