/* One "CFFI-embedded library": includes the repository's real _embedding.h
   (found through -I<repo>/src/cffi), with private static state per
   translation unit.  Compile with -DLIBID=0 and -DLIBID=1. */
#include <Python.h>
#include <errno.h>
#include <string.h>
#include <stdio.h>
#include <pthread.h>
#include "stub.h"

#define STR2(x) #x
#define STR(x) STR2(x)
#define CAT2(a, b) a##b
#define CAT(a, b) CAT2(a, b)

struct _cffi_externpy_s { const char *name; size_t size_of_result; void *reserved1, *reserved2; };
static const void *_cffi_exports[30];
#define _CFFI_CPIDX 25
#define _CFFI_MODULE_NAME "lib" STR(LIBID)
#define _CFFI_PYTHON_STARTUP_CODE "init" STR(LIBID)
#define _CFFI_PYTHON_STARTUP_FUNC CAT(stub_startup_, LIBID)
#define _CFFI_UNUSED_FN __attribute__((unused))
#ifndef WITH_THREAD
# define WITH_THREAD
#endif

/* Yield / delay injection and wait-state logging *between* the critical
   sections of the real code: function-like macros around the primitives the
   header uses (a self-referential macro is not re-expanded, so the real
   primitive is still called). */
#define __sync_bool_compare_and_swap(l, o, n) \
    (stub_yield(LIBID, 1), stub_set_waiting(1), \
     (__sync_bool_compare_and_swap(l, o, n) ? (stub_set_waiting(0), stub_ev(LIBID, EV_CAS, 1), 1) : 0))
#define pthread_mutex_lock(m) \
    (stub_ev(LIBID, EV_MUTEX_WAIT, 0), stub_yield(LIBID, 2), stub_set_waiting(2), \
     pthread_mutex_lock(m), stub_set_waiting(0), stub_ev(LIBID, EV_MUTEX_ACQ, 0), 0)
#define pthread_mutex_unlock(m) \
    (stub_ev(LIBID, EV_MUTEX_REL, 0), pthread_mutex_unlock(m), stub_yield(LIBID, 3), 0)

#include "_embedding.h"

#undef __sync_bool_compare_and_swap
#undef pthread_mutex_lock
#undef pthread_mutex_unlock

/* what _cffi_backend's cffi_call_python() would be */
static void real_call_python(struct _cffi_externpy_s *externpy, char *args)
{
    int arg;
    memcpy(&arg, args, sizeof(int));
    stub_ev(LIBID, EV_CALL_PYTHON, arg);
    arg = 1000 + 100 * LIBID + arg;
    memcpy(args, &arg, sizeof(int));
}

PyMODINIT_FUNC _CFFI_PYTHON_STARTUP_FUNC(void)
{
    stub_ev(LIBID, EV_STARTUP, 0);
    _cffi_exports[_CFFI_CPIDX] = (const void *)real_call_python;
    return NULL;
}

/* an exported  extern "Python" int fn(int)  as the code generator writes it */
int CAT(CAT(lib, LIBID), _call)(int a0)
{
    static struct _cffi_externpy_s e = { "fn" STR(LIBID), sizeof(int), 0, 0 };
    char a[8];
    int result;
    memset(a, 0x5a, sizeof(a));
    memcpy(a, &a0, sizeof(int));
    stub_ev(LIBID, EV_CALL_ENTER, a0);
    _cffi_call_python(&e, a);
    memcpy(&result, a, sizeof(int));
    stub_ev(LIBID, EV_CALL_RETURN, result);
    return result;
}
