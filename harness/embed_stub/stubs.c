/* C28 harness: a stubbed CPython API (only what _embedding.h uses), the
   event log, yield injection, scripted "init code", scenario driver and the
   offline checker.  One process per scenario (fork), because the header keeps
   its state in function-local statics.

   usage: embed_stub <first_seed> <count> <mode>     (mode: 0 normal, 1 heavy delays)
   prints one line per scenario:
     S <seed> <verdict> nthreads=.. nlibs=.. beh=.. sig=<hash> events=<n> [detail]
*/
#define _GNU_SOURCE
#include <Python.h>
#include <pthread.h>
#include <stdio.h>
#include <stdlib.h>
#include <string.h>
#include <unistd.h>
#include <sched.h>
#include <signal.h>
#include <sys/wait.h>
#include <sys/time.h>
#include "stub.h"

/* ---------------- event log ---------------- */
#define MAXEV 20000
struct ev { int tid, lib, kind, a; };
static struct ev evlog[MAXEV];
static volatile int nev;
static __thread int my_tid = -1;
static __thread unsigned int my_rng;
static __thread int my_wait;
static volatile int thread_wait[8];
static volatile long progress;         /* non-spin events */
static int heavy;
static unsigned int scen_seed;

void stub_ev(int lib, int kind, int a)
{
    int i = __sync_fetch_and_add(&nev, 1);
    if (i < MAXEV) {
        evlog[i].tid = my_tid; evlog[i].lib = lib; evlog[i].kind = kind; evlog[i].a = a;
    }
    if (kind != EV_CAS)
        __sync_fetch_and_add(&progress, 1);
}

void stub_set_waiting(int w)
{
    my_wait = w;
    if (my_tid >= 0)
        thread_wait[my_tid] = w;
}

static unsigned int rnd(void)
{
    my_rng = my_rng * 1103515245u + 12345u;
    return (my_rng >> 16) & 0x7fff;
}

void stub_yield(int lib, int point)
{
    unsigned int r = rnd() % 100;
    (void)lib; (void)point;
    if (r < 35)
        sched_yield();
    else if (r < (heavy ? 60 : 42))
        usleep(rnd() % (heavy ? 400 : 60));
}

/* ---------------- scenario ---------------- */
static int behaviour[2];
static int nthreads, nlibs;
static int plan[3][3], plan_len[3];

int stub_behaviour(int lib) { return behaviour[lib]; }

/* ---------------- stubbed CPython ---------------- */
static volatile int py_initialized;
static volatile int py_init_count;
static pthread_mutex_t gil;             /* recursive */
static __thread int gil_depth;
static __thread int err_flag;
static PyObject dummy_obj = { _PyObject_EXTRA_INIT { 1 << 29 }, NULL };
PyTypeObject PyCapsule_Type;            /* all zero: tp_as_buffer == NULL */
PyObject _Py_NoneStruct;

static void gil_acquire(void)
{
    if (gil_depth == 0) {
        stub_ev(-1, EV_GIL_WAIT, 0);
        stub_set_waiting(3);
        pthread_mutex_lock(&gil);
        stub_set_waiting(0);
        stub_ev(-1, EV_GIL_ACQ, 0);
    }
    gil_depth++;
}
static void gil_release(void)
{
    if (--gil_depth == 0)
        pthread_mutex_unlock(&gil);
}

int Py_IsInitialized(void) { return py_initialized; }
void Py_InitializeEx(int initsigs)
{
    (void)initsigs;
    stub_ev(-1, EV_PYINIT, 0);
    __sync_fetch_and_add(&py_init_count, 1);
    stub_yield(-1, 10);
    gil_acquire();                       /* the initializing thread holds the GIL */
    py_initialized = 1;
}
void Py_Initialize(void) { Py_InitializeEx(1); }
PyThreadState *PyEval_SaveThread(void) { gil_release(); return NULL; }
void PyEval_InitThreads(void) { }
PyGILState_STATE PyGILState_Ensure(void) { stub_yield(-1, 11); gil_acquire(); return PyGILState_UNLOCKED; }
void PyGILState_Release(PyGILState_STATE s) { (void)s; gil_release(); }
PyObject *PyErr_Occurred(void) { return err_flag ? &dummy_obj : NULL; }
void PyErr_Fetch(PyObject **a, PyObject **b, PyObject **c) { err_flag = 0; *a = &dummy_obj; *b = NULL; *c = NULL; }
void PyErr_NormalizeException(PyObject **a, PyObject **b, PyObject **c) { (void)a; (void)b; (void)c; }
void PyErr_Display(PyObject *a, PyObject *b, PyObject *c) { (void)a; (void)b; (void)c; }
PyObject *PySys_GetObject(const char *n) { (void)n; return NULL; }
int PyFile_WriteString(const char *s, PyObject *f) { (void)s; (void)f; return 0; }
int PyFile_WriteObject(PyObject *o, PyObject *f, int fl) { (void)o; (void)f; (void)fl; return 0; }
PyObject *PyImport_GetModuleDict(void) { return &dummy_obj; }
PyObject *PyDict_GetItemString(PyObject *d, const char *k) { (void)d; (void)k; return NULL; }
PyObject *PyObject_GetAttrString(PyObject *o, const char *n) { (void)o; (void)n; return NULL; }
PyObject *PyDict_New(void) { return &dummy_obj; }
PyObject *PyEval_GetBuiltins(void) { return &dummy_obj; }
int PyDict_SetItemString(PyObject *d, const char *k, PyObject *v) { (void)d; (void)k; (void)v; return 0; }
void _Py_Dealloc(PyObject *o) { (void)o; }
#if PY_VERSION_HEX >= 0x030C0000
void _Py_DecRefShared(PyObject *o) { (void)o; }
#endif

static PyObject code_obj[2];
PyObject *Py_CompileStringExFlags(const char *s, const char *fn, int start, PyCompilerFlags *fl, int opt)
{
    (void)fn; (void)start; (void)fl; (void)opt;
    return &code_obj[s[4] - '0'];        /* "init0" / "init1" */
}
#undef Py_CompileString
PyObject *Py_CompileString(const char *s, const char *fn, int start)
{
    return Py_CompileStringExFlags(s, fn, start, NULL, -1);
}

/* the scripted init code of library L, "running as Python code" with the GIL held */
PyObject *PyEval_EvalCode(PyObject *co, PyObject *g, PyObject *l)
{
    int lib = (int)(co - code_obj);
    int beh = behaviour[lib], saved, r;
    (void)g; (void)l;
    stub_ev(lib, EV_INIT_START, 0);
    stub_yield(lib, 12);
    if (beh == BEH_RECURSE_SELF || beh == BEH_CALL_OTHER) {
        /* calling a C function through cffi releases the GIL around the call */
        saved = gil_depth;
        gil_depth = 1; gil_release();
        r = (beh == BEH_RECURSE_SELF) == (lib == 0) ? lib0_call(7) : lib1_call(7);
        (void)r;
        gil_acquire(); gil_depth = saved;
    }
    stub_yield(lib, 13);
    if (beh == BEH_FAIL) {
        stub_ev(lib, EV_INIT_END_FAIL, 0);
        err_flag = 1;
        return NULL;
    }
    stub_ev(lib, EV_INIT_END_OK, 0);
    return &dummy_obj;
}

/* ---------------- threads ---------------- */
static int results[3][3];
static volatile int finished[3];

static void *worker(void *arg)
{
    int t = (int)(long)arg, i;
    my_tid = t;
    my_rng = (777u * (unsigned)(t + 1) + scen_seed * 2654435761u) ^ (heavy ? 0x5555u : 0);
    for (i = 0; i < plan_len[t]; i++) {
        int lib = plan[t][i];
        stub_yield(lib, 20);
        results[t][i] = lib == 0 ? lib0_call(10 * t + i + 1) : lib1_call(10 * t + i + 1);
    }
    finished[t] = 1;
    return NULL;
}

static unsigned int srng;
static unsigned int srnd(void) { srng ^= srng << 13; srng ^= srng >> 17; srng ^= srng << 5; return (srng >> 3) & 0x7fff; }

static const char *check(char *detail)
{
    int i, n = nev < MAXEV ? nev : MAXEV;
    int init_start[2] = {0, 0}, init_thread[2] = {-1, -1}, init_end[2] = {0, 0};
    int init_failed[2] = {0, 0};
    int t, k;
    if (py_init_count > 1) { sprintf(detail, "Py_InitializeEx ran %d times", py_init_count); return "VIOLATION:python-initialized-twice"; }
    for (i = 0; i < n; i++) {
        struct ev *e = &evlog[i];
        if (e->kind == EV_INIT_START) {
            if (++init_start[e->lib] > 1) { sprintf(detail, "init code of lib%d ran twice (event %d)", e->lib, i); return "VIOLATION:init-code-ran-twice"; }
            init_thread[e->lib] = e->tid;
        }
        else if (e->kind == EV_INIT_END_OK) init_end[e->lib] = 1;
        else if (e->kind == EV_INIT_END_FAIL) { init_end[e->lib] = 1; init_failed[e->lib] = 1; }
        else if (e->kind == EV_CALL_PYTHON) {
            if (!init_end[e->lib] && e->tid != init_thread[e->lib]) {
                sprintf(detail, "thread %d ran an extern-Python function of lib%d at event %d before its init finished", e->tid, e->lib, i);
                return "VIOLATION:extern-python-before-init-finished";
            }
            if (init_failed[e->lib] && init_end[e->lib]) {
                sprintf(detail, "lib%d: extern-Python function ran after the failed initialization (event %d)", e->lib, i);
                return "VIOLATION:call-ran-after-failed-init";
            }
        }
    }
    for (t = 0; t < nthreads; t++)
        for (k = 0; k < plan_len[t]; k++) {
            int lib = plan[t][k], arg = 10 * t + k + 1, r = results[t][k];
            if (behaviour[lib] == BEH_FAIL) {
                if (r != 0) { sprintf(detail, "lib%d failed to initialize but call(%d) returned %d", lib, arg, r); return "VIOLATION:nonzero-result-after-failed-init"; }
            }
            else if (r != 1000 + 100 * lib + arg) {
                sprintf(detail, "lib%d call(%d) returned %d, expected %d", lib, arg, r, 1000 + 100 * lib + arg);
                return "VIOLATION:wrong-result";
            }
        }
    return "OK";
}

static int scenario(unsigned int seed)
{
    pthread_t th[3];
    pthread_mutexattr_t at;
    char detail[300] = "";
    const char *verdict;
    int t, i, polls = 0;
    long last_progress = -1;
    unsigned int sig = 0;
    scen_seed = seed;
    srng = (seed + 0x9e3779b9u) * 2654435761u;
    srng ^= srng >> 15; srng *= 2246822519u; srng ^= srng >> 13; if (!srng) srng = 1;
    srnd(); srnd();
    nthreads = 1 + srnd() % 3;
    nlibs = 1 + srnd() % 2;
    for (i = 0; i < 2; i++) {
        int r = srnd() % 10;
        behaviour[i] = r < 5 ? BEH_OK : r < 7 ? BEH_FAIL : r < 9 ? BEH_RECURSE_SELF : BEH_CALL_OTHER;
        if (behaviour[i] == BEH_CALL_OTHER && nlibs == 1) behaviour[i] = BEH_RECURSE_SELF;
    }
    /* lib A's init calling lib B whose init calls lib A again is a user-level cycle */
    if (behaviour[0] == BEH_CALL_OTHER && behaviour[1] == BEH_CALL_OTHER) behaviour[1] = BEH_OK;
    /* the result of a call made from inside failing init code is unspecified */
    for (i = 0; i < 2; i++)
        if (behaviour[i] == BEH_CALL_OTHER && behaviour[1 - i] == BEH_FAIL) behaviour[i] = BEH_OK;
    for (t = 0; t < nthreads; t++) {
        plan_len[t] = 1 + srnd() % 3;
        for (i = 0; i < plan_len[t]; i++) plan[t][i] = srnd() % nlibs;
    }
    pthread_mutexattr_init(&at);
    pthread_mutexattr_settype(&at, PTHREAD_MUTEX_RECURSIVE);
    pthread_mutex_init(&gil, &at);
    for (t = 0; t < nthreads; t++)
        pthread_create(&th[t], NULL, worker, (void *)(long)t);
    /* logical deadlock detection: every unfinished thread recorded as waiting and
       no non-spin event over many polls; the wall-clock alarm alone = inconclusive */
    while (1) {
        int alldone = 1, allwaiting = 1;
        for (t = 0; t < nthreads; t++)
            if (!finished[t]) { alldone = 0; if (!thread_wait[t]) allwaiting = 0; }
        if (alldone) break;
        usleep(2000);
        if (allwaiting && progress == last_progress) {
            if (++polls > 1500) {
                printf("S %u VIOLATION:deadlock nthreads=%d nlibs=%d beh=%d,%d events=%d all unfinished threads wait (states %d %d %d) and the log stopped\n",
                       seed, nthreads, nlibs, behaviour[0], behaviour[1], nev, thread_wait[0], thread_wait[1], thread_wait[2]);
                fflush(stdout);
                _exit(0);
            }
        }
        else { polls = 0; last_progress = progress; }
    }
    for (t = 0; t < nthreads; t++) pthread_join(th[t], NULL);
    verdict = check(detail);
    for (i = 0; i < nev && i < MAXEV; i++)
        if (evlog[i].kind != EV_CAS || evlog[i].a)
            sig = sig * 31u + (unsigned)(evlog[i].tid * 64 + (evlog[i].lib + 1) * 16 + evlog[i].kind);
    printf("S %u %s nthreads=%d nlibs=%d beh=%d,%d sig=%08x events=%d pyinit=%d %s\n", seed, verdict,
           nthreads, nlibs, behaviour[0], behaviour[1], sig, nev, py_init_count, detail);
    fflush(stdout);
    return 0;
}

int main(int argc, char **argv)
{
    unsigned int first = argc > 1 ? (unsigned)strtoul(argv[1], NULL, 10) : 1;
    int count = argc > 2 ? atoi(argv[2]) : 1, i;
    heavy = argc > 3 ? atoi(argv[3]) : 0;
    for (i = 0; i < count; i++) {
        pid_t pid;
        int status;
        fflush(stdout);
        pid = fork();
        if (pid == 0) {
            alarm(60);                  /* wall-clock watchdog: inconclusive */
            if (!getenv("EMBED_STUB_STDERR")) freopen("/dev/null", "w", stderr);
            scenario(first + (unsigned)i);
            _exit(0);
        }
        waitpid(pid, &status, 0);
        if (WIFSIGNALED(status)) {
            if (WTERMSIG(status) == SIGALRM)
                printf("S %u WATCHDOG\n", first + (unsigned)i);
            else
                printf("S %u VIOLATION:crash signal=%d\n", first + (unsigned)i, WTERMSIG(status));
        }
    }
    return 0;
}
