/* C28 harness: a stubbed CPython API (only what _embedding.h uses), the
   event log, yield injection, scripted "init code", scenario driver and the
   offline checker.  One process per scenario (fork), because the header keeps
   its state in function-local statics.

   usage: embed_stub <first_seed> <count> <mode>
     mode bit 0: heavy delays; bit 1: directed scenario (>= 2 threads; thread 0
     goes first, the others make their first call exactly while the
     initializing thread is held at a chosen point of the start-up sequence)
   prints one line per scenario:
     S <seed> <verdict> nthreads=.. nlibs=.. beh=.. pre=.. gate=.. hit=.. late=..
       kinds=.. sig=<hash> events=<n> [detail]
   beh: per library N (no inner call) / S (init code calls its own extern
   function or cffi_start_python) / O (calls the other library), + F when the
   init code fails afterwards.
*/
#define _GNU_SOURCE
#include <Python.h>
#include <pthread.h>
#include <stdio.h>
#include <stdlib.h>
#include <string.h>
#include <unistd.h>
#include <sched.h>
#include <signal.h>
#include <sys/wait.h>
#include <sys/time.h>
#include <time.h>
#include "stub.h"

/* ---------------- event log ---------------- */
#define MAXEV 20000
struct ev { int tid, lib, kind, a; };
static struct ev evlog[MAXEV];
static volatile int nev;
static __thread int my_tid = -1;
static __thread unsigned int my_rng;
static __thread int my_wait;
static volatile int thread_wait[8];
static volatile long progress;         /* non-spin events */
static int heavy, directed;
static unsigned int scen_seed;
static volatile int arrived[3];        /* thread entered its first operation */
static volatile int finished[3];
static volatile int first_done[3];

void stub_ev(int lib, int kind, int a)
{
    int i = __sync_fetch_and_add(&nev, 1);
    if (i < MAXEV) {
        evlog[i].tid = my_tid; evlog[i].lib = lib; evlog[i].kind = kind; evlog[i].a = a;
    }
    if (kind != EV_CAS)
        __sync_fetch_and_add(&progress, 1);
    if ((kind == EV_CALL_ENTER || kind == EV_START_ENTER) && my_tid >= 0)
        arrived[my_tid] = 1;
}

void stub_set_waiting(int w)
{
    my_wait = w;
    if (my_tid >= 0)
        thread_wait[my_tid] = w;
}

static unsigned int rnd(void)
{
    my_rng = my_rng * 1103515245u + 12345u;
    return (my_rng >> 16) & 0x7fff;
}

/* stall points (as in priority-change-point schedulers): the n-th delay point of
   one thread becomes a long stall, until the other threads have logged stall_len
   more events (or all are blocked / finished, or ~5 ms) */
static int nstalls, stall_tid[2], stall_at[2], stall_len[2], nthreads;
static volatile int stalls_taken;
static __thread int yield_no;

void stub_yield(int lib, int point)
{
    unsigned int r = rnd() % 100;
    int s, k, t, n = yield_no++;
    (void)lib; (void)point;
    for (s = 0; s < nstalls; s++)
        if (my_tid == stall_tid[s] && n == stall_at[s]) {
            int target = nev + stall_len[s];
            __sync_fetch_and_add(&stalls_taken, 1);
            for (k = 0; k < 25 && nev < target; k++) {
                int others_stuck = 1;
                for (t = 0; t < nthreads; t++)
                    if (t != my_tid && !finished[t] && !thread_wait[t]) others_stuck = 0;
                if (others_stuck) break;
                usleep(200);
            }
        }
    if (r < 35)
        sched_yield();
    else if (r < (heavy ? 60 : 42))
        usleep(rnd() % (heavy ? 400 : 60));
}

/* ---------------- scenario ---------------- */
static int fails[2];                   /* the init code raises at its end */
static int recurse[2];                 /* init code: 0 no call, 1 calls its own library, 2 the other */
static int inner_kind[2];              /* which operation the init code performs */
static int preinit;                    /* the host process initialized Python already */
static int nlibs;
static int plan[3][3], plan_kind[3][3], plan_len[3];
/* directed scenarios: the first thread that reaches point gate_point is held
   there until every other thread has entered its first operation and is
   blocked (or a bounded grace period is over); the other threads start their
   first operation when the point is reached.
   1 = inside Py_InitializeEx, 2 = init code started, 3 = inside the extern
   "Python" function called by the init code, 4 = init code after that call */
static int gate_point;
static int start_barrier;              /* undirected scenarios: all threads start together */
static pthread_barrier_t barrier;
static volatile int gate_reached, hold_result;
static __thread int init_depth;

static void hold_point(int p)
{
    int n, t, grace = 0;
    if (gate_point != p || !__sync_bool_compare_and_swap(&gate_reached, 0, p))
        return;
    for (n = 0; n < 10000; n++) {
        int all_blocked = 1, all_arrived = 1;
        for (t = 0; t < nthreads; t++) {
            if (t == my_tid || finished[t]) continue;
            if (!arrived[t]) all_arrived = 0;
            if (!(arrived[t] && thread_wait[t])) all_blocked = 0;
        }
        if (all_blocked) { hold_result = 1; return; }
        if (all_arrived && ++grace > 25) { hold_result = 2; return; }
        usleep(200);
    }
    hold_result = 3;
}

int stub_result_byte(int lib, int arg, int i) { return 0x80 | ((arg + 3 * i + 17 * lib) & 0x7f); }
void stub_in_extern_python(int lib) { (void)lib; if (init_depth > 0) hold_point(3); }

/* ---------------- stubbed CPython ---------------- */
static volatile int py_initialized;
static volatile int py_init_count;
static pthread_mutex_t gil;             /* recursive */
static __thread int gil_depth;
static __thread int err_flag;
static volatile int misuse;            /* 1 GIL released but not held, 2 GILState_Ensure before Py_Initialize */
static PyObject dummy_obj = { _PyObject_EXTRA_INIT { 1 << 29 }, NULL };
PyTypeObject PyCapsule_Type;            /* all zero: tp_as_buffer == NULL */
PyObject _Py_NoneStruct;

static void gil_acquire(void)
{
    if (gil_depth == 0) {
        stub_ev(-1, EV_GIL_WAIT, 0);
        stub_set_waiting(3);
        pthread_mutex_lock(&gil);
        stub_set_waiting(0);
        stub_ev(-1, EV_GIL_ACQ, 0);
    }
    gil_depth++;
}
static void gil_release(void)
{
    if (gil_depth <= 0) { misuse = 1; return; }   /* a fatal error in the real CPython */
    if (--gil_depth == 0)
        pthread_mutex_unlock(&gil);
}

int Py_IsInitialized(void) { return py_initialized; }
void Py_InitializeEx(int initsigs)
{
    (void)initsigs;
    stub_ev(-1, EV_PYINIT, 0);
    __sync_fetch_and_add(&py_init_count, 1);
    stub_yield(-1, 10);
    hold_point(1);
    gil_acquire();                       /* the initializing thread holds the GIL */
    py_initialized = 1;
}
void Py_Initialize(void) { Py_InitializeEx(1); }
PyThreadState *PyEval_SaveThread(void) { gil_release(); return NULL; }
void PyEval_InitThreads(void) { }
PyGILState_STATE PyGILState_Ensure(void)
{
    if (!py_initialized) misuse = 2;
    stub_yield(-1, 11); gil_acquire(); return PyGILState_UNLOCKED;
}
void PyGILState_Release(PyGILState_STATE s) { (void)s; gil_release(); }
PyObject *PyErr_Occurred(void) { return err_flag ? &dummy_obj : NULL; }
void PyErr_Fetch(PyObject **a, PyObject **b, PyObject **c) { err_flag = 0; *a = &dummy_obj; *b = NULL; *c = NULL; }
void PyErr_NormalizeException(PyObject **a, PyObject **b, PyObject **c) { (void)a; (void)b; (void)c; }
void PyErr_Display(PyObject *a, PyObject *b, PyObject *c) { (void)a; (void)b; (void)c; }
PyObject *PySys_GetObject(const char *n) { (void)n; return NULL; }
int PyFile_WriteString(const char *s, PyObject *f) { (void)s; (void)f; return 0; }
int PyFile_WriteObject(PyObject *o, PyObject *f, int fl) { (void)o; (void)f; (void)fl; return 0; }
PyObject *PyImport_GetModuleDict(void) { return &dummy_obj; }
PyObject *PyDict_GetItemString(PyObject *d, const char *k) { (void)d; (void)k; return NULL; }
PyObject *PyObject_GetAttrString(PyObject *o, const char *n) { (void)o; (void)n; return NULL; }
PyObject *PyDict_New(void) { return &dummy_obj; }
PyObject *PyEval_GetBuiltins(void) { return &dummy_obj; }
int PyDict_SetItemString(PyObject *d, const char *k, PyObject *v) { (void)d; (void)k; (void)v; return 0; }
void _Py_Dealloc(PyObject *o) { (void)o; }
#if PY_VERSION_HEX >= 0x030C0000
void _Py_DecRefShared(PyObject *o) { (void)o; }
#endif

static PyObject code_obj[2];
PyObject *Py_CompileStringExFlags(const char *s, const char *fn, int start, PyCompilerFlags *fl, int opt)
{
    (void)fn; (void)start; (void)fl; (void)opt;
    return &code_obj[s[4] - '0'];        /* "init0" / "init1" */
}
#undef Py_CompileString
PyObject *Py_CompileString(const char *s, const char *fn, int start)
{
    return Py_CompileStringExFlags(s, fn, start, NULL, -1);
}

static void do_op(int lib, int kind, int arg, unsigned char *out, int *start_res)
{
    if (kind == STUB_OP_START)
        *start_res = lib == 0 ? lib0_start() : lib1_start();
    else if (lib == 0)
        lib0_call(kind, arg, out);
    else
        lib1_call(kind, arg, out);
}

/* the scripted init code of library L, "running as Python code" with the GIL held */
PyObject *PyEval_EvalCode(PyObject *co, PyObject *g, PyObject *l)
{
    int lib = (int)(co - code_obj);
    int saved, r = 0;
    unsigned char out[24];
    (void)g; (void)l;
    stub_ev(lib, EV_INIT_START, 0);
    init_depth++;
    stub_yield(lib, 12);
    hold_point(2);
    if (recurse[lib]) {
        /* calling a C function through cffi releases the GIL around the call */
        saved = gil_depth;
        gil_depth = 1; gil_release();
        do_op(recurse[lib] == 1 ? lib : 1 - lib, inner_kind[lib], 0x11223307, out, &r);
        gil_acquire(); gil_depth = saved;
        hold_point(4);
    }
    stub_yield(lib, 13);
    init_depth--;
    if (fails[lib]) {
        stub_ev(lib, EV_INIT_END_FAIL, 0);
        err_flag = 1;
        return NULL;
    }
    stub_ev(lib, EV_INIT_END_OK, 0);
    return &dummy_obj;
}

/* ---------------- threads ---------------- */
static unsigned char results[3][3][24];
static int start_res[3][3];
static const int kind_size[STUB_NKINDS] = { 4, 1, 8, 24 };
#define ARG(t, k) (0x11223300 + 10 * (t) + (k) + 1)     /* no zero byte */

static void *worker(void *arg)
{
    int t = (int)(long)arg, i, n;
    my_tid = t;
    my_rng = (777u * (unsigned)(t + 1) + scen_seed * 2654435761u) ^ (heavy ? 0x5555u : 0);
    if (start_barrier)
        pthread_barrier_wait(&barrier);
    if (directed && t > 0)
        for (n = 0; n < 10000 && !gate_reached && !first_done[0]; n++)
            usleep(200);
    for (i = 0; i < plan_len[t]; i++) {
        int lib = plan[t][i];
        if (!(directed && i == 0) && !(start_barrier && i == 0 && (scen_seed & 1)))
            stub_yield(lib, 20);
        do_op(lib, plan_kind[t][i], ARG(t, i), results[t][i], &start_res[t][i]);
        first_done[t] = 1;
    }
    finished[t] = 1;
    return NULL;
}

static unsigned int srng;
static unsigned int srnd(void) { srng ^= srng << 13; srng ^= srng >> 17; srng ^= srng << 5; return (srng >> 3) & 0x7fff; }

static int late_arrivals;

static const char *check(char *detail)
{
    int i, n = nev < MAXEV ? nev : MAXEV;
    int init_start[2] = {0, 0}, init_thread[2] = {-1, -1}, init_end[2] = {0, 0};
    int init_failed[2] = {0, 0};
    int t, k, j;
    if (py_init_count > 1) { sprintf(detail, "Py_InitializeEx ran %d times", py_init_count); return "VIOLATION:python-initialized-twice"; }
    if (preinit && py_init_count > 0) { sprintf(detail, "Py_InitializeEx called although the host process had initialized Python"); return "VIOLATION:python-initialized-twice"; }
    if (misuse == 1) { sprintf(detail, "PyEval_SaveThread / PyGILState_Release by a thread that does not hold the GIL (fatal error in CPython)"); return "VIOLATION:python-api-misuse:gil-released-but-not-held"; }
    if (misuse == 2) { sprintf(detail, "PyGILState_Ensure before Python is initialized (crash in CPython)"); return "VIOLATION:python-api-misuse:gilstate-ensure-before-py-initialize"; }
    for (i = 0; i < n; i++) {
        struct ev *e = &evlog[i];
        if (e->kind == EV_INIT_START) {
            if (++init_start[e->lib] > 1) { sprintf(detail, "init code of lib%d ran twice (event %d)", e->lib, i); return "VIOLATION:init-code-ran-twice"; }
            init_thread[e->lib] = e->tid;
        }
        else if (e->kind == EV_INIT_END_OK) init_end[e->lib] = 1;
        else if (e->kind == EV_INIT_END_FAIL) { init_end[e->lib] = 1; init_failed[e->lib] = 1; }
        else if (e->kind == EV_CALL_ENTER || e->kind == EV_START_ENTER) {
            if (init_start[e->lib] && !init_end[e->lib] && e->tid != init_thread[e->lib])
                late_arrivals++;
        }
        else if (e->kind == EV_CALL_PYTHON) {
            if (!init_end[e->lib] && e->tid != init_thread[e->lib]) {
                sprintf(detail, "thread %d ran an extern-Python function of lib%d at event %d before its init finished", e->tid, e->lib, i);
                return "VIOLATION:extern-python-before-init-finished";
            }
            if (init_failed[e->lib] && init_end[e->lib]) {
                sprintf(detail, "lib%d: extern-Python function ran after the failed initialization (event %d)", e->lib, i);
                return "VIOLATION:call-ran-after-failed-init";
            }
        }
        else if (e->kind == EV_START_RETURN && e->a == 0) {
            if (!init_end[e->lib] && e->tid != init_thread[e->lib]) {
                sprintf(detail, "thread %d: cffi_start_python() of lib%d returned 0 at event %d before its init finished", e->tid, e->lib, i);
                return "VIOLATION:start-python-ok-before-init-finished";
            }
            if (init_failed[e->lib] && init_end[e->lib]) {
                sprintf(detail, "lib%d: cffi_start_python() returned 0 after the failed initialization (event %d)", e->lib, i);
                return "VIOLATION:start-python-ok-after-failed-init";
            }
        }
    }
    for (t = 0; t < nthreads; t++)
        for (k = 0; k < plan_len[t]; k++) {
            int lib = plan[t][k], arg = ARG(t, k), kind = plan_kind[t][k];
            if (kind == STUB_OP_START) {
                if (start_res[t][k] != (fails[lib] ? -1 : 0)) {
                    sprintf(detail, "lib%d (init %s): cffi_start_python() returned %d", lib, fails[lib] ? "fails" : "ok", start_res[t][k]);
                    return "VIOLATION:start-python-wrong-result";
                }
                continue;
            }
            for (j = 0; j < kind_size[kind]; j++) {
                int r = results[t][k][j];
                if (fails[lib]) {
                    if (r != 0) { sprintf(detail, "lib%d failed to initialize but call(%#x) with a %d-byte result returned byte[%d]=%#x", lib, arg, kind_size[kind], j, r); return "VIOLATION:nonzero-result-after-failed-init"; }
                }
                else if (r != stub_result_byte(lib, arg, j)) {
                    sprintf(detail, "lib%d call(%#x) with a %d-byte result returned byte[%d]=%#x, expected %#x", lib, arg, kind_size[kind], j, r, stub_result_byte(lib, arg, j));
                    return "VIOLATION:wrong-result";
                }
            }
        }
    return "OK";
}

static void print_scenario(unsigned int seed, const char *verdict)
{
    int t, k, kinds[5] = {0, 0, 0, 0, 0};
    for (t = 0; t < nthreads; t++)
        for (k = 0; k < plan_len[t]; k++) kinds[plan_kind[t][k]]++;
    printf("S %u %s nthreads=%d nlibs=%d beh=%c%s,%c%s inner=%d,%d pre=%d bar=%d stalls=%d/%d gate=%d hit=%d hold=%d late=%d kinds=%d,%d,%d,%d,%d",
           seed, verdict, nthreads, nlibs, "NSO"[recurse[0]], fails[0] ? "F" : "", "NSO"[recurse[1]], fails[1] ? "F" : "",
           recurse[0] ? inner_kind[0] : -1, recurse[1] ? inner_kind[1] : -1,
           preinit, start_barrier, stalls_taken, nstalls, gate_point, gate_reached, hold_result, late_arrivals,
           kinds[0], kinds[1], kinds[2], kinds[3], kinds[4]);
}

static double thread_cpu(pthread_t th)
{
    clockid_t cid;
    struct timespec ts;
    if (pthread_getcpuclockid(th, &cid) || clock_gettime(cid, &ts)) return 0.0;
    return ts.tv_sec + ts.tv_nsec * 1e-9;
}

static int scenario(unsigned int seed)
{
    pthread_t th[3];
    pthread_mutexattr_t at;
    char detail[300] = "";
    const char *verdict;
    int t, i, polls = 0;
    long last_progress = -1;
    double cpu0[3] = {0, 0, 0};
    unsigned int sig = 0;
    static const int kind_of[8] = { 0, 0, 0, 1, 2, 3, 3, STUB_OP_START };
    scen_seed = seed;
    srng = (seed + 0x9e3779b9u) * 2654435761u;
    srng ^= srng >> 15; srng *= 2246822519u; srng ^= srng >> 13; if (!srng) srng = 1;
    srnd(); srnd();
    nthreads = directed ? 2 + srnd() % 2 : 1 + srnd() % 3;
    nlibs = 1 + srnd() % 2;
    preinit = srnd() % 6 == 0;
    for (i = 0; i < 2; i++) {
        int r = srnd() % 10;
        fails[i] = srnd() % 10 < 3;
        recurse[i] = directed ? (r < 2 ? 0 : r < 7 ? 1 : 2) : (r < 5 ? 0 : r < 8 ? 1 : 2);
        if (recurse[i] == 2 && nlibs == 1) recurse[i] = 1;
        inner_kind[i] = kind_of[srnd() % 8];
    }
    /* lib A's init calling lib B whose init calls lib A again is a user-level cycle */
    if (recurse[0] == 2 && recurse[1] == 2) recurse[1] = 0;
    memset(results, 0xEE, sizeof(results));
    for (t = 0; t < nthreads; t++) {
        plan_len[t] = 1 + srnd() % 3;
        for (i = 0; i < plan_len[t]; i++) {
            plan[t][i] = srnd() % nlibs;
            plan_kind[t][i] = kind_of[srnd() % 8];
            start_res[t][i] = -99;
        }
    }
    if (directed) {
        int cand[4], nc = 0, l0 = plan[0][0];
        if (!preinit) cand[nc++] = 1;
        cand[nc++] = 2;
        if (recurse[l0]) { cand[nc++] = 4; cand[nc++] = 3; }
        gate_point = cand[srnd() % nc];
        if (gate_point == 3 && inner_kind[l0] == STUB_OP_START) gate_point = 4;
        /* the late threads mostly race for the library thread 0 initializes */
        for (t = 1; t < nthreads; t++)
            if (srnd() % 4) plan[t][0] = l0;
    }
    else
        start_barrier = srnd() % 2;
    if (start_barrier) pthread_barrier_init(&barrier, NULL, nthreads);
    if (nthreads >= 2 && srnd() % 3) {
        nstalls = 1 + srnd() % 2;
        for (i = 0; i < nstalls; i++) {
            stall_tid[i] = srnd() % nthreads;
            stall_at[i] = srnd() % (i ? 24 : 10);
            stall_len[i] = 2 + srnd() % 30;
        }
    }
    if (preinit) py_initialized = 1;
    pthread_mutexattr_init(&at);
    pthread_mutexattr_settype(&at, PTHREAD_MUTEX_RECURSIVE);
    pthread_mutex_init(&gil, &at);
    for (t = 0; t < nthreads; t++)
        pthread_create(&th[t], NULL, worker, (void *)(long)t);
    /* logical deadlock / livelock detection: no non-spin event over many polls
       while every unfinished thread is either recorded as waiting or has burnt
       more than a second of CPU time since the last event (spinning on a plain
       read); the wall-clock alarm alone = inconclusive */
    while (1) {
        int alldone = 1, allstuck = 1, spinning = 0;
        for (t = 0; t < nthreads; t++)
            if (!finished[t]) {
                alldone = 0;
                if (thread_wait[t]) continue;
                if (progress == last_progress && thread_cpu(th[t]) - cpu0[t] > 1.0) spinning++;
                else allstuck = 0;
            }
        if (alldone) break;
        usleep(2000);
        if (allstuck && progress == last_progress) {
            if (++polls > 1500) {
                verdict = spinning ? "VIOLATION:livelock" : "VIOLATION:deadlock";
                (void)check(detail);
                print_scenario(seed, verdict);
                printf(" events=%d all unfinished threads wait or spin without any event (states %d %d %d, %d spinning on a plain read) and the log stopped\n",
                       nev, thread_wait[0], thread_wait[1], thread_wait[2], spinning);
                fflush(stdout);
                _exit(3);
            }
        }
        else if (progress != last_progress) {
            polls = 0; last_progress = progress;
            for (t = 0; t < nthreads; t++) cpu0[t] = finished[t] ? 0.0 : thread_cpu(th[t]);
        }
        else polls = 0;
    }
    for (t = 0; t < nthreads; t++) pthread_join(th[t], NULL);
    verdict = check(detail);
    for (i = 0; i < nev && i < MAXEV; i++)
        if (evlog[i].kind != EV_CAS || evlog[i].a)
            sig = sig * 31u + (unsigned)(evlog[i].tid * 64 + (evlog[i].lib + 1) * 16 + evlog[i].kind);
    if (getenv("EMBED_STUB_DUMP"))
        for (i = 0; i < nev && i < MAXEV; i++)
            printf("E %d tid=%d lib=%d kind=%d a=%#x\n", i, evlog[i].tid, evlog[i].lib, evlog[i].kind, evlog[i].a);
    print_scenario(seed, verdict);
    printf(" sig=%08x events=%d pyinit=%d %s\n", sig, nev, py_init_count, detail);
    fflush(stdout);
    return 0;
}

int main(int argc, char **argv)
{
    unsigned int first = argc > 1 ? (unsigned)strtoul(argv[1], NULL, 10) : 1;
    int count = argc > 2 ? atoi(argv[2]) : 1, i, hangs = 0;
    int mode = argc > 3 ? atoi(argv[3]) : 0;
    heavy = mode & 1;
    directed = (mode >> 1) & 1;
    for (i = 0; i < count; i++) {
        pid_t pid;
        int status;
        if (hangs >= 2) {               /* every hang costs seconds: two witnesses are enough */
            printf("S %u SKIPPED\n", first + (unsigned)i);
            continue;
        }
        fflush(stdout);
        pid = fork();
        if (pid == 0) {
            alarm(60);                  /* wall-clock watchdog: inconclusive */
            if (!getenv("EMBED_STUB_STDERR")) freopen("/dev/null", "w", stderr);
            scenario(first + (unsigned)i);
            _exit(0);
        }
        waitpid(pid, &status, 0);
        if (WIFSIGNALED(status)) {
            if (WTERMSIG(status) == SIGALRM) {
                printf("S %u WATCHDOG\n", first + (unsigned)i);
                hangs++;
            }
            else
                printf("S %u VIOLATION:crash signal=%d\n", first + (unsigned)i, WTERMSIG(status));
        }
        else if (WIFEXITED(status) && WEXITSTATUS(status) == 3)
            hangs++;
    }
    return 0;
}
