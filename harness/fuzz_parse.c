/* libFuzzer target for src/c/parse_c_type.c (property C30).
 *
 * Built by props/c30.py from the repository's current tree:
 *   clang -g -O1 -fsanitize=fuzzer,address,undefined -fsanitize-recover=address
 *         -I<python include> -I<repo>/src/c fuzz_parse.c -lpython3.12
 *
 * Input layout: byte 0 selects the context (bit 0: populated / empty) and the
 * size of the output array (bits 1..3); the rest is the type string.  The
 * string and the output array are malloc()ed with their exact sizes, so ASan
 * red zones decide any read past the NUL and any write past output_size.
 * ASan runs in recover mode; every report is saved together with the input
 * that produced it into $C30_REPORT_DIR (report-N.txt / report-N.bin).
 */
#include <Python.h>
#include <stdint.h>
#include <stdio.h>
#include <stdlib.h>
#include <string.h>

#include "parse_c_type.c"
#include "commontypes.c"

void __asan_set_error_report_callback(void (*cb)(const char *));

static int c_four(struct _cffi_getconst_s *gc) { gc->value = 4; return 0; }
static int c_zero(struct _cffi_getconst_s *gc) { gc->value = 0; return 1; }
static int c_big(struct _cffi_getconst_s *gc) { gc->value = 1ULL << 63; return 0; }
static int c_max(struct _cffi_getconst_s *gc) { gc->value = (1ULL << 63) - 1; return 0; }
static int c_neg(struct _cffi_getconst_s *gc) { gc->value = (unsigned long long)-3; return 1; }
static int c_odd(struct _cffi_getconst_s *gc) { gc->value = 7; return 2; }
static int a_variable;

/* all tables sorted by name, as the recompiler emits them */
static const struct _cffi_global_s g_globals[] = {
    {"AA_BIG", (void *)c_big, _CFFI_OP(_CFFI_OP_CONSTANT_INT, -1), 0},
    {"AA_MAX", (void *)c_max, _CFFI_OP(_CFFI_OP_CONSTANT_INT, -1), 0},
    {"BB_FOUR", (void *)c_four, _CFFI_OP(_CFFI_OP_CONSTANT_INT, -1), 0},
    {"CC_NEG", (void *)c_neg, _CFFI_OP(_CFFI_OP_CONSTANT_INT, -1), 0},
    {"CC_ZERO", (void *)c_zero, _CFFI_OP(_CFFI_OP_CONSTANT_INT, -1), 0},
    {"EE_VAL", (void *)c_four, _CFFI_OP(_CFFI_OP_ENUM, -1), 0},
    {"FF_ODD", (void *)c_odd, _CFFI_OP(_CFFI_OP_ENUM, -1), 0},
    {"a_var", &a_variable, _CFFI_OP(_CFFI_OP_GLOBAL_VAR, 0), 0},
};
static const struct _cffi_struct_union_s g_su[] = {
    {"$1", 3, 0, 4, 4, 0, 0},
    {"bar_u", 4, _CFFI_F_UNION, 4, 4, 0, 0},
    {"foo_s", 5, 0, 8, 4, 0, 0},
    {"opq", 6, _CFFI_F_OPAQUE, (size_t)-1, -1, 0, 0},
};
static const struct _cffi_enum_s g_enums[] = {
    {"e1", 7, _CFFI_PRIM_UINT, "EE_VAL,FF_ODD"},
    {"e2", 8, _CFFI_PRIM_INT, ""},
};
static const struct _cffi_typename_s g_typenames[] = {
    {"foo_t", 0}, {"my_int", 1}, {"zz_t", 2},
};
static const struct _cffi_type_context_s ctx_full = {
    NULL, g_globals, NULL, g_su, g_enums, g_typenames,
    sizeof(g_globals) / sizeof(g_globals[0]), sizeof(g_su) / sizeof(g_su[0]),
    sizeof(g_enums) / sizeof(g_enums[0]), sizeof(g_typenames) / sizeof(g_typenames[0]),
    NULL, 9, 0,
};
/* empty tables, but not NULL: forming &NULL->name is the (filtered) UBSan
   report of DESIGN 2.2 and would stop this target at once */
static const struct _cffi_type_context_s ctx_empty = {
    NULL, g_globals, NULL, g_su, g_enums, g_typenames, 0, 0, 0, 0, NULL, 0, 0,
};

static const uint8_t *cur_data;
static size_t cur_size;
static int n_reports;

static void on_report(const char *text)
{
    const char *dir = getenv("C30_REPORT_DIR");
    char path[4096];
    FILE *f;
    if (dir == NULL || n_reports >= 200)
        return;
    n_reports++;
    snprintf(path, sizeof(path), "%s/report-%d-%d.txt", dir, (int)getpid(), n_reports);
    if ((f = fopen(path, "wb")) != NULL) { fputs(text, f); fclose(f); }
    snprintf(path, sizeof(path), "%s/report-%d-%d.bin", dir, (int)getpid(), n_reports);
    if ((f = fopen(path, "wb")) != NULL) { fwrite(cur_data, 1, cur_size, f); fclose(f); }
}

int LLVMFuzzerInitialize(int *argc, char ***argv)
{
    __asan_set_error_report_callback(on_report);
    return 0;
}

int LLVMFuzzerTestOneInput(const uint8_t *data, size_t size)
{
    static const unsigned int sizes[8] = {1, 2, 3, 5, 8, 16, 64, 1200};
    struct _cffi_parse_info_s info;
    char *text;
    int r;

    if (size < 1)
        return 0;
    cur_data = data;
    cur_size = size;
    info.ctx = (data[0] & 1) ? &ctx_full : &ctx_empty;
    info.output_size = sizes[(data[0] >> 1) & 7];
    info.output = malloc(info.output_size * sizeof(_cffi_opcode_t));
    info.error_location = 0;
    info.error_message = NULL;
    text = malloc(size);              /* size-1 characters and the NUL */
    memcpy(text, data + 1, size - 1);
    text[size - 1] = 0;

    r = parse_c_type(&info, text);
    if (r >= 0) {
        if ((unsigned int)r >= info.output_size) {
            fprintf(stderr, "C30-HARNESS: result index %d outside the output array of %u\n",
                    r, info.output_size);
            abort();
        }
    }
    else if (info.error_message == NULL || info.error_location > strlen(text)) {
        fprintf(stderr, "C30-HARNESS: error without message or location %zu past the "
                "end of the string (%zu)\n", info.error_location, strlen(text));
        abort();
    }
    free(text);
    free(info.output);
    return 0;
}
