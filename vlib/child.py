"""Child side of core.run_cases: python -m vlib.child <propmodule> <payload.json> <out.jsonl>

Runs inside the sanitized interpreter.  For each case writes a start marker,
then the observation plus whatever the sanitizer runtime appended to its log
file while the case ran (so reports are attributed to the case)."""
import sys, os, json, importlib, traceback, faulthandler


def _san_files(pid):
    out = []
    for var in ('ASAN_OPTIONS', 'UBSAN_OPTIONS', 'TSAN_OPTIONS'):
        for part in os.environ.get(var, '').split(':'):
            if part.startswith('log_path='):
                p = part[len('log_path='):] + '.%d' % pid
                if p not in out:
                    out.append(p)
    if os.environ.get('VERIF_MEMCHECK_LOG'):
        out.append(os.environ['VERIF_MEMCHECK_LOG'] + '.%d' % pid)
    return out


def main():
    modname, payload, outp = sys.argv[1:4]
    faulthandler.enable()
    with open(payload) as f:
        data = json.load(f)
    import _cffi_backend
    want = os.environ['PYTHONPATH'].split(os.pathsep)[0]
    if os.path.dirname(os.path.abspath(_cffi_backend.__file__)) != os.path.abspath(want):
        raise SystemExit('child: wrong _cffi_backend loaded: %s' % _cffi_backend.__file__)
    mod = importlib.import_module('props.' + modname)
    wd = data.get('workdir')
    if wd:
        os.makedirs(wd, exist_ok=True)
    out = open(outp, 'a')
    state = None
    if hasattr(mod, 'child_setup'):
        state = mod.child_setup(data['setup'], wd)
    logs = _san_files(os.getpid())
    offs = {p: 0 for p in logs}

    def newsan():
        txt = ''
        for p in logs:
            try:
                sz = os.path.getsize(p)
            except OSError:
                continue
            if sz > offs[p]:
                with open(p, 'rb') as f:
                    f.seek(offs[p])
                    txt += f.read(200000).decode(errors='replace')
                offs[p] = sz
        return txt
    newsan()
    for i, case in data['cases']:
        out.write(json.dumps({'start': i}) + '\n')
        out.flush()
        try:
            obs = mod.child_case(state, case)
        except BaseException as e:
            if isinstance(e, (KeyboardInterrupt, SystemExit)):
                raise
            obs = {'_error': traceback.format_exc()[-3000:]}
        rec = {'i': i, 'obs': obs}
        s = newsan()
        if s:
            rec['san'] = s
        try:
            line = json.dumps(rec)
        except (TypeError, ValueError):
            line = json.dumps({'i': i, 'obs': {'_error': 'unserialisable obs: %r' % (obs,)}})
        out.write(line + '\n')
        out.flush()
    if hasattr(mod, 'child_teardown'):
        mod.child_teardown(state)
    out.close()
    sys.stdout.flush()
    os._exit(0)


if __name__ == '__main__':
    main()
