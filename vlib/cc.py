"""The C-compiler oracle: batched probe programs compiled with the platform
compiler (gcc), bisected when a batch fails to compile."""
import os, subprocess, hashlib, itertools
import concurrent.futures as cf

PRELUDE = r'''
#include <stdio.h>
#include <stddef.h>
#include <stdint.h>
#include <string.h>
#include <stdlib.h>
#include <wchar.h>
#include <uchar.h>
#include <complex.h>
#include <sys/types.h>
#include <limits.h>
#include <errno.h>
#undef bool
typedef _Bool bool;
'''

_counter = itertools.count()


def compile_c(tmp, source, out, cc='gcc', flags=(), shared=False, timeout=300):
    src = os.path.join(tmp, 'p%d_%d.c' % (os.getpid(), next(_counter)))
    with open(src, 'w') as f:
        f.write(source)
    cmd = [cc, '-O0', '-w', '-std=gnu11'] + list(flags)
    if shared:
        cmd += ['-shared', '-fPIC']
    cmd += [src, '-o', out, '-lm']
    r = subprocess.run(cmd, stdout=subprocess.PIPE, stderr=subprocess.STDOUT, timeout=timeout)
    return r.returncode, r.stdout.decode(errors='replace')


def run_exe(exe, timeout=120):
    r = subprocess.run([exe], stdout=subprocess.PIPE, stderr=subprocess.PIPE, timeout=timeout)
    return r.returncode, r.stdout.decode(errors='replace'), r.stderr.decode(errors='replace')


def _probe_once(tmp, units, cc, flags):
    parts = [PRELUDE]
    for k, (uid, decls, stmts) in enumerate(units):
        parts.append(decls + '\n')
        parts.append('static void u_%d(void) {\n%s\n}\n' % (k, stmts))
    parts.append('int main(void) {\n')
    for k, (uid, decls, stmts) in enumerate(units):
        parts.append('  printf("@@ %d\\n"); u_%d();\n' % (k, k))
    parts.append('  return 0;\n}\n')
    exe = os.path.join(tmp, 'x%d_%d' % (os.getpid(), next(_counter)))
    rc, msg = compile_c(tmp, ''.join(parts), exe, cc, flags)
    if rc != 0:
        return None, msg
    rc, out, err = run_exe(exe)
    try:
        os.unlink(exe)
    except OSError:
        pass
    if rc != 0:
        return None, 'probe exited %s: %s' % (rc, err[-500:])
    res = {}
    cur = None
    for line in out.splitlines():
        if line.startswith('@@ '):
            cur = units[int(line[3:])][0]
            res[cur] = []
        elif cur is not None:
            res[cur].append(line)
    return res, ''


def _probe_bisect(tmp, units, cc, flags):
    res, msg = _probe_once(tmp, units, cc, flags)
    if res is not None:
        return res
    if len(units) == 1:
        return {units[0][0]: {'error': msg[-2000:]}}
    mid = len(units) // 2
    out = _probe_bisect(tmp, units[:mid], cc, flags)
    out.update(_probe_bisect(tmp, units[mid:], cc, flags))
    return out


def batch_probe(tmp, units, cc='gcc', flags=(), batch=150, nproc=16):
    """units: list of (id, file_scope_decls, statements).  Each unit's
    statements run in their own function and print lines with printf.
    Returns {id: [lines] | {'error': compiler message}}."""
    chunks = [units[i:i + batch] for i in range(0, len(units), batch)]
    out = {}
    with cf.ThreadPoolExecutor(max_workers=nproc) as ex:
        for r in ex.map(lambda ch: _probe_bisect(tmp, ch, cc, flags), chunks):
            out.update(r)
    return out


def build_so(tmp, source, name, cc='gcc', flags=()):
    out = os.path.join(tmp, name)
    rc, msg = compile_c(tmp, PRELUDE + source, out, cc, flags, shared=True)
    if rc != 0:
        raise RuntimeError('cannot build %s: %s' % (name, msg[-3000:]))
    return out
