"""Generator of struct/union declarations (shared by C01, C20, C11, ...).

An aggregate is a dict:
  {'kind': 'struct'|'union', 'name': str, 'fields': [field...], 'packed': None|True|int}
field: {'name': str ('' = unnamed bitfield or anonymous member), 'type': T, 'bits': None|int}
T: {'k':'prim','name':..} | {'k':'ptr','to':T} | {'k':'array','of':T,'n':int|None}
   | {'k':'fnptr','sig':(ret, [args], ellipsis)} | {'k':'agg','name':..,'kind':..}
   | {'k':'anon','agg':aggregate}
"""

PRIMS = ['char', 'signed char', 'unsigned char', 'short', 'unsigned short', 'int',
         'unsigned int', 'long', 'unsigned long', 'long long', 'unsigned long long',
         'float', 'double', 'long double', '_Bool', 'wchar_t', 'char16_t', 'char32_t',
         'int8_t', 'uint8_t', 'int16_t', 'uint16_t', 'int32_t', 'uint32_t', 'int64_t',
         'uint64_t', 'size_t', 'ssize_t', 'intptr_t', 'uintptr_t', 'ptrdiff_t',
         'float _Complex', 'double _Complex']
BF_TYPES = [('signed char', 8), ('unsigned char', 8), ('short', 16), ('unsigned short', 16),
            ('int', 32), ('unsigned int', 32), ('long', 64), ('unsigned long', 64),
            ('long long', 64), ('unsigned long long', 64), ('int8_t', 8), ('uint8_t', 8),
            ('int16_t', 16), ('uint16_t', 16), ('int32_t', 32), ('uint32_t', 32),
            ('int64_t', 64), ('uint64_t', 64), ('_Bool', 1), ('signed int', 32),
            ('unsigned', 32), ('signed', 32)]


class Gen(object):
    def __init__(self, rng, prefix='s', complex_ok=True, longdouble_ok=True):
        self.rng = rng
        self.prefix = prefix
        self.decls = []          # aggregates in declaration order
        self.count = 0
        self.fcount = 0
        self.prims = [p for p in PRIMS if (complex_ok or 'Complex' not in p) and
                      (longdouble_ok or p != 'long double')]

    def fresh(self, kind):
        self.count += 1
        return '%s%d' % (self.prefix, self.count)

    def prim(self):
        return {'k': 'prim', 'name': self.rng.choice(self.prims)}

    def simple_type(self, depth):
        r = self.rng.random()
        if r < 0.5:
            return self.prim()
        if r < 0.62:
            return {'k': 'ptr', 'to': self.rng.choice([
                self.prim(), {'k': 'prim', 'name': 'void'},
                {'k': 'ptr', 'to': self.prim()}])}
        if r < 0.68:
            return {'k': 'fnptr', 'sig': (self.rng.choice(['int', 'void', 'double', 'char *']),
                                          [self.rng.choice(['int', 'char', 'double', 'void *'])
                                           for _ in range(self.rng.randrange(0, 3))],
                                          self.rng.random() < 0.2)}
        if r < 0.84:
            t = self.simple_type(depth + 1) if depth < 2 else self.prim()
            if t['k'] == 'array' and t['n'] is None:
                t = self.prim()
            return {'k': 'array', 'of': t, 'n': self.rng.choice([1, 2, 3, 5, 7])}
        if r < 0.94 and self.decls:
            d = self.rng.choice(self.decls)
            if not d.get('flex'):
                return {'k': 'agg', 'name': d['name'], 'kind': d['kind']}
        return self.prim()

    def bitfield(self, allow_unnamed=True):
        T, bits = self.rng.choice(BF_TYPES)
        r = self.rng.random()
        if T == '_Bool':
            w = self.rng.choice([1, 1, 0]) if allow_unnamed else 1
        elif r < 0.12 and allow_unnamed:
            w = 0
        elif r < 0.25:
            w = bits
        elif r < 0.4:
            w = self.rng.choice([1, bits - 1, bits // 2, bits // 2 + 1])
        else:
            w = self.rng.randint(1, bits)
        unnamed = w == 0 or (allow_unnamed and self.rng.random() < 0.12)
        return {'name': '' if unnamed else None, 'type': {'k': 'prim', 'name': T}, 'bits': w}

    def aggregate(self, depth=0, name=None, allow_bitfields=True, allow_flex=True,
                  allow_packed=True, anon=False, maxfields=12):
        rng = self.rng
        kind = 'union' if rng.random() < 0.25 else 'struct'
        nf = rng.choice([1, 1, 2, 2, 3, 3, 4, 5, 6, 8, maxfields])
        bitmode = allow_bitfields and rng.random() < 0.45
        fields = []
        for i in range(nf):
            r = rng.random()
            if bitmode and r < 0.6:
                f = self.bitfield()
            elif depth < 3 and r > 0.9:
                sub = self.aggregate(depth + 1, allow_bitfields=allow_bitfields,
                                     allow_flex=False, allow_packed=False, anon=True,
                                     maxfields=4)
                f = {'name': '', 'type': {'k': 'anon', 'agg': sub}, 'bits': None}
            elif depth < 3 and r > 0.82:
                # named nested aggregate declared before this one
                sub = self.aggregate(depth + 1, allow_bitfields=allow_bitfields,
                                     allow_flex=False, allow_packed=False, maxfields=5)
                self.decls.append(sub)
                f = {'name': None, 'type': {'k': 'agg', 'name': sub['name'],
                                            'kind': sub['kind']}, 'bits': None}
            else:
                f = {'name': None, 'type': self.simple_type(depth), 'bits': None}
            fields.append(f)
        # names
        # member names are unique across the whole generator: members of
        # anonymous aggregates share the scope of the enclosing one
        for f in fields:
            if f['name'] is None:
                self.fcount += 1
                f['name'] = 'f%d' % self.fcount
        if not any(f['name'] for f in fields) and not any(
                f['type']['k'] == 'anon' for f in fields):
            self.fcount += 1
            fields.append({'name': 'f%d' % self.fcount, 'type': self.prim(), 'bits': None})
        agg = {'kind': kind, 'name': name or (None if anon else self.fresh(kind)),
               'fields': fields, 'packed': None, 'flex': False}
        has_bits = self.has_bitfields(agg)
        if allow_flex and kind == 'struct' and rng.random() < 0.12:
            agg['fields'].append({'name': 'flex%d' % self.count, 'type': {'k': 'array', 'of': self.prim(),
                                                           'n': None}, 'bits': None})
            agg['flex'] = True
        if allow_packed and not has_bits and rng.random() < 0.2 and \
                not self.has_nested(agg):
            agg['packed'] = rng.choice([True, 1, 2, 4, 8])
        if anon:
            agg['name'] = None
        return agg

    def has_bitfields(self, agg):
        for f in agg['fields']:
            if f['bits'] is not None:
                return True
            if f['type']['k'] == 'anon' and self.has_bitfields(f['type']['agg']):
                return True
        return False

    def has_nested(self, agg):
        def walk(t):
            if t['k'] in ('agg', 'anon'):
                return True
            if t['k'] == 'array':
                return walk(t['of'])
            return False
        return any(walk(f['type']) for f in agg['fields'])

    def toplevel(self, **kw):
        a = self.aggregate(0, **kw)
        self.decls.append(a)
        return a


# ---------------------------------------------------------------------------
# rendering

def render_type(t, inner=''):
    """C declarator text for type t around `inner` (a name or '')."""
    k = t['k']
    if k == 'prim':
        return (t['name'] + ' ' + inner).rstrip()
    if k == 'agg':
        return ('%s %s %s' % (t['kind'], t['name'], inner)).rstrip()
    if k == 'anon':
        return (render_body(t['agg']) + ' ' + inner).rstrip()
    if k == 'ptr':
        to = t['to']
        if to['k'] in ('array', 'fnptr'):
            return render_type(to, '(*%s)' % inner)
        return render_type(to, '*' + inner)
    if k == 'array':
        n = '' if t['n'] is None else str(t['n'])
        return render_type(t['of'], '%s[%s]' % (inner, n))
    if k == 'fnptr':
        ret, args, ell = t['sig']
        a = list(args)
        if ell:
            a = (a or ['int']) + ['...']
        return '%s (*%s)(%s)' % (ret, inner, ', '.join(a) or 'void')
    raise ValueError(k)


def render_field(f):
    if f['bits'] is not None:
        return '%s %s : %d;' % (f['type']['name'], f['name'], f['bits'])
    return render_type(f['type'], f['name']) + ';'


def render_body(agg, attr=''):
    name = agg['name'] or ''
    return '%s %s%s { %s }' % (agg['kind'], attr, name,
                               ' '.join(render_field(f) for f in agg['fields']))


def render_decl_c(agg):
    """text for the C compiler (packed -> attribute / pragma)"""
    if agg['packed'] is True:
        return render_body(agg, '__attribute__((packed)) ') + ';'
    if agg['packed']:
        return '#pragma pack(push, %d)\n%s;\n#pragma pack(pop)' % (agg['packed'],
                                                                   render_body(agg))
    return render_body(agg) + ';'


def render_decl_cffi(agg):
    """(text, cdef kwargs) for ffi.cdef"""
    kw = {}
    if agg['packed'] is True:
        kw['packed'] = True
    elif agg['packed']:
        kw['pack'] = agg['packed']
    return render_body(agg) + ';', kw


def named_paths(agg, prefix=''):
    """(path, field) for every named field reachable through anonymous members;
    path is a C member-access expression suffix such as 'f1' (anonymous members
    are transparent in C)."""
    out = []
    for f in agg['fields']:
        if f['type']['k'] == 'anon':
            out.extend(named_paths(f['type']['agg'], prefix))
        elif f['name']:
            out.append((prefix + f['name'], f))
    return out
