"""Generator of C type strings over a declaration context (C07, C08, C30).

A type is generated as a small AST and rendered with random *syntactic*
variation (specifier order, qualifiers anywhere, number bases, redundant
grouping parentheses, optional parameter names, calling conventions), then
optionally mutated at token level into a near-miss string.
"""
import re

PRIM_WORDS = {
    'char': [['char']], 'signed char': [['signed', 'char']],
    'unsigned char': [['unsigned', 'char']],
    'short': [['short'], ['short', 'int'], ['signed', 'short'], ['signed', 'short', 'int']],
    'unsigned short': [['unsigned', 'short'], ['unsigned', 'short', 'int']],
    'int': [['int'], ['signed'], ['signed', 'int']],
    'unsigned int': [['unsigned'], ['unsigned', 'int']],
    'long': [['long'], ['long', 'int'], ['signed', 'long'], ['signed', 'long', 'int']],
    'unsigned long': [['unsigned', 'long'], ['unsigned', 'long', 'int']],
    'long long': [['long', 'long'], ['long', 'long', 'int'], ['signed', 'long', 'long'],
                  ['signed', 'long', 'long', 'int']],
    'unsigned long long': [['unsigned', 'long', 'long'], ['unsigned', 'long', 'long', 'int']],
    'float': [['float']], 'double': [['double']], 'long double': [['long', 'double']],
    '_Bool': [['_Bool']], 'void': [['void']],
}
NAMED_PRIMS = ['int8_t', 'uint8_t', 'int16_t', 'uint16_t', 'int32_t', 'uint32_t', 'int64_t',
               'uint64_t', 'size_t', 'ssize_t', 'intptr_t', 'uintptr_t', 'ptrdiff_t', 'wchar_t',
               'char16_t', 'char32_t', 'bool', 'float _Complex', 'double _Complex', 'intmax_t',
               'uint_least8_t', 'int_fast32_t']


class TGen(object):
    def __init__(self, rng, typedefs=(), structs=(), unions=(), enums=(), consts=()):
        self.rng = rng
        self.typedefs, self.structs, self.unions = list(typedefs), list(structs), list(unions)
        self.enums, self.consts = list(enums), list(consts)

    # ---- AST -----------------------------------------------------------
    def base(self, allow_void=False):
        r = self.rng.random()
        if r < 0.4:
            names = [k for k in PRIM_WORDS if k != 'void' or allow_void]
            return ('prim', self.rng.choice(names))
        if r < 0.5:
            return ('named', self.rng.choice(NAMED_PRIMS))
        if r < 0.65 and self.typedefs:
            return ('named', self.rng.choice(self.typedefs))
        if r < 0.78 and self.structs:
            return ('tag', 'struct', self.rng.choice(self.structs))
        if r < 0.86 and self.unions:
            return ('tag', 'union', self.rng.choice(self.unions))
        if r < 0.94 and self.enums:
            return ('tag', 'enum', self.rng.choice(self.enums))
        return ('prim', self.rng.choice(['int', 'char', 'long', 'double']))

    def gen(self, depth=0):
        r = self.rng.random()
        if depth >= 4 or r < 0.3:
            return self.base(allow_void=depth > 0 and self.rng.random() < 0.2)
        if r < 0.6:
            return ('ptr', self.gen(depth + 1))
        if r < 0.8:
            return ('array', self.gen(depth + 1), self.rng.choice(
                [None, 0, 1, 2, 3, 7, 8, 10, 64, 255, 1000] +
                ([('const', self.rng.choice(self.consts))] if self.consts else [])))
        nargs = self.rng.randrange(0, 4)
        args = []
        for _ in range(nargs):
            a = self.gen(depth + 2)
            while a == ('prim', 'void'):      # 'void' is not a parameter type
                a = self.gen(depth + 2)
            args.append(a)
        res = self.gen(depth + 2)
        return ('ptr', ('func', args, res, bool(nargs) and self.rng.random() < 0.2))

    # ---- rendering with syntactic variation -----------------------------
    def quals(self):
        r = self.rng.random()
        if r < 0.75:
            return []
        return self.rng.choice([['const'], ['volatile'], ['const', 'volatile'], ['const', 'const']])

    def number(self, n):
        if isinstance(n, tuple):
            return n[1]
        r = self.rng.random()
        if r < 0.6:
            s = '%d' % n
        elif r < 0.8:
            s = '0x%x' % n if self.rng.random() < 0.5 else '0X%X' % n
        else:
            s = '0%o' % n if n else '0'
        return s

    def render(self, t, inner=None):
        """token list"""
        inner = inner or []
        k = t[0]
        if k == 'prim':
            words = list(self.rng.choice(PRIM_WORDS[t[1]]))
            if self.rng.random() < 0.4:
                self.rng.shuffle(words)
            for q in self.quals():
                words.insert(self.rng.randint(0, len(words)), q)
            return words + inner
        if k == 'named':
            words = t[1].split()
            q = self.quals()
            return (q + words if self.rng.random() < 0.5 else words + q) + inner
        if k == 'tag':
            q = self.quals()
            w = [t[1], t[2]]
            return (q + w if self.rng.random() < 0.5 else w + q) + inner
        if k == 'ptr':
            if t[1][0] == 'func':
                cc = self.rng.choice([[], [], [], ['__cdecl'], ['__stdcall']])
                return self.render(t[1], ['('] + cc + ['*'] + self.quals() + inner + [')'])
            star = ['*'] + self.quals() + inner
            if t[1][0] == 'array':
                return self.render(t[1], ['('] + star + [')'])
            if self.rng.random() < 0.12:
                star = ['('] + star + [')']      # redundant grouping
            return self.render(t[1], star)
        if k == 'array':
            n = [] if t[2] is None else [self.number(t[2])]
            return self.render(t[1], inner + ['['] + n + [']'])
        if k == 'func':
            args = []
            for i, a in enumerate(t[1]):
                nm = ['a%d' % i] if self.rng.random() < 0.3 else []
                if args:
                    args.append(',')
                args += self.render(a, nm)
            if t[3]:
                args += [',', '...']
            if not t[1]:
                args = ['void'] if self.rng.random() < 0.7 else []
            return self.render(t[2], inner + ['('] + args + [')'])
        raise ValueError(t)

    def string(self):
        toks = self.render(self.gen())
        return join(toks), toks

    # ---- near-miss mutants ---------------------------------------------
    def mutate(self, toks):
        toks = list(toks)
        rng = self.rng
        for _ in range(rng.choice([1, 1, 2])):
            op = rng.choice(['del', 'dup', 'swap', 'ins', 'badnum', 'unknown', 'paren'])
            if not toks:
                toks = ['int']
            i = rng.randrange(len(toks))
            if op == 'del':
                del toks[i]
            elif op == 'dup':
                toks.insert(i, toks[i])
            elif op == 'swap' and len(toks) > 1:
                j = rng.randrange(len(toks))
                toks[i], toks[j] = toks[j], toks[i]
            elif op == 'ins':
                toks.insert(i, rng.choice(['*', '(', ')', '[', ']', ',', 'int', 'const', 'long',
                                           'unsigned', 'struct', '...', '3', 'void', '&', ';',
                                           '__stdcall', 'short', 'double', 'signed', 'char']))
            elif op == 'badnum':
                toks.insert(i, rng.choice(['08', '0x', '1e3', '-1', '99999999999999999999',
                                           '1.5', '0b11', "'a'", '3u', '4L', '0xg']))
            elif op == 'unknown':
                toks[i] = rng.choice(['nosuchtype', 'foo_t', '_', 'structx', 'Int', '$x'])
            elif op == 'paren':
                toks.insert(i, '(')
                toks.insert(rng.randint(i + 1, len(toks)), ')')
        return join(toks), toks


def join(toks):
    s = ' '.join(toks)
    s = re.sub(r'\( ', '(', s)
    s = re.sub(r' \)', ')', s)
    s = re.sub(r' ,', ',', s)
    s = re.sub(r'\* (?=[\*\)])', '*', s)
    s = re.sub(r' \[', '[', s)
    s = re.sub(r'\[ ', '[', s)
    s = re.sub(r' \]', ']', s)
    return s
