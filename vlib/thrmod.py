"""Helper API-mode module shared by C22 (errno) and C36 (foreign threads):
errno accessors, a global whose address fetch touches errno, callback
trampolines, and a pthread driver that calls a callback from threads Python
did not create."""

CDEF = r'''
int get_errno(void);
void set_errno(int v);
int add_touch(int a);
int call_cb_then_errno(int (*cb)(int), int x);
int gvar;
extern "Python" int ep_errno(int);
int call_ep_then_errno(int x);

typedef int (*thr_cb_t)(int wave, int tid, int idx);
extern "Python" int ep_thread(int wave, int tid, int idx);
int run_wave(int wave, int n, int *ncalls, int *sleep_us, int *exit_delay_us, thr_cb_t cb,
             int use_extern_python);
int start_detached(int wave, int n, int ncalls, int sleep_us, thr_cb_t cb);
int detached_done(void);
'''

SOURCE = r'''
#include <errno.h>
#include <pthread.h>
#include <unistd.h>
#include <stdlib.h>

int get_errno(void) { return errno; }
void set_errno(int v) { errno = v; }
int add_touch(int a) { errno = a; return a + 1; }
int call_cb_then_errno(int (*cb)(int), int x) { errno = 0; cb(x); return errno; }
static int real_gvar = 1234;
/* fetching the address of 'gvar' leaves errno == 77 */
#define gvar (*(errno = 77, &real_gvar))
static int ep_errno(int);
int call_ep_then_errno(int x) { errno = 0; ep_errno(x); return errno; }

typedef int (*thr_cb_t)(int wave, int tid, int idx);
static int ep_thread(int wave, int tid, int idx);

struct thr {
    pthread_t th; int wave, tid, ncalls, sleep_us, exit_delay_us; thr_cb_t cb; int mismatches;
};

static void *thr_main(void *arg)
{
    struct thr *t = (struct thr *)arg;
    int i;
    for (i = 0; i < t->ncalls; i++) {
        int r;
        errno = 0;
        r = t->cb(t->wave, t->tid, i);
        /* the callback does 'ffi.errno = r' (r > 0): it must be our errno now */
        if (r > 0 && errno != r)
            t->mismatches++;
        if (t->sleep_us)
            usleep(t->sleep_us);
    }
    if (t->exit_delay_us)
        usleep(t->exit_delay_us);
    return NULL;
}

int run_wave(int wave, int n, int *ncalls, int *sleep_us, int *exit_delay_us, thr_cb_t cb,
             int use_extern_python)
{
    struct thr *ts = calloc(n, sizeof(struct thr));
    int i, bad = 0;
    for (i = 0; i < n; i++) {
        ts[i].wave = wave; ts[i].tid = i; ts[i].ncalls = ncalls[i];
        ts[i].sleep_us = sleep_us[i]; ts[i].exit_delay_us = exit_delay_us[i];
        ts[i].cb = use_extern_python ? ep_thread : cb;
        if (pthread_create(&ts[i].th, NULL, thr_main, &ts[i]) != 0)
            bad += 1000;
    }
    for (i = 0; i < n; i++) {
        pthread_join(ts[i].th, NULL);
        bad += ts[i].mismatches;
    }
    free(ts);
    return bad;
}

static volatile int n_detached_done;
static void *detached_main(void *arg)
{
    thr_main(arg);
    __sync_fetch_and_add(&n_detached_done, 1);
    return NULL;
}
int start_detached(int wave, int n, int ncalls, int sleep_us, thr_cb_t cb)
{
    int i;
    for (i = 0; i < n; i++) {
        struct thr *t = calloc(1, sizeof(struct thr));   /* leaked on purpose */
        pthread_attr_t a;
        t->wave = wave; t->tid = i; t->ncalls = ncalls; t->sleep_us = sleep_us; t->cb = cb;
        pthread_attr_init(&a);
        pthread_attr_setdetachstate(&a, PTHREAD_CREATE_DETACHED);
        if (pthread_create(&t->th, &a, detached_main, t) != 0)
            return -1;
    }
    return 0;
}
int detached_done(void) { return n_detached_done; }
'''


def spec(d, name='_thrmod'):
    return {'name': name, 'kind': 'api', 'cdef': CDEF, 'source': SOURCE, 'dir': d,
            'kwds': {'libraries': ['pthread']}}
