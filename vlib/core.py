"""Common machinery: context (seed, tier, counters, verdicts, evidence),
known-findings classification, sharded sanitized child runner, replay."""
import os, sys, json, time, random, hashlib, tempfile, shutil, subprocess, re, signal
import concurrent.futures as cf

from . import build

VERIF = build.VERIF
REPO = build.REPO
NPROC = int(os.environ.get('VERIF_NPROC', '0')) or min(16, os.cpu_count() or 4)


class Inconclusive(Exception):
    pass


def load_known():
    p = os.path.join(VERIF, 'known_findings.json')
    with open(p) as f:
        data = json.load(f)
    return data


class Ctx(object):
    def __init__(self, prop_id, tier='quick', seed=0, level='exploration'):
        self.prop_id = prop_id
        self.tier = tier
        self.seed = seed
        self.level = level
        self.t0 = time.time()
        self.counters = {}
        self.distinct_keys = set()
        self.nontrivial_keys = set()
        self.evaluations = 0
        self.samples = []
        self.max_samples = 12
        self.violations = []        # (mech, msg, replay)
        self.known_hits = {}        # mech -> (count, first msg)
        self.inconclusives = []
        self.san_reports = {}       # dedup key -> count
        self.notes = []
        self.rule = ''
        self.assumptions = []
        self.extra = {}
        self.exhaustive = False
        self._tmp = None
        self._nreplay = 0
        kf = load_known()
        self.known = {(f['property'], f['key']): f for f in kf.get('findings', [])}

    # ---- helpers -------------------------------------------------------
    @property
    def thorough(self):
        return self.tier == 'thorough'

    def scale(self, quick, thorough):
        n = thorough if self.thorough else quick
        mul = float(os.environ.get('VERIF_SCALE', '1'))
        return max(1, int(n * mul))

    def rng(self, name=''):
        h = hashlib.sha256(('%s/%s/%s' % (self.prop_id, self.seed, name)).encode()).digest()
        return random.Random(int.from_bytes(h[:8], 'big'))

    @property
    def tmp(self):
        if self._tmp is None:
            base = os.path.join(VERIF, '.scratch')
            os.makedirs(base, exist_ok=True)
            self._tmp = tempfile.mkdtemp(prefix=self.prop_id + '-', dir=base)
        return self._tmp

    def cleanup(self):
        if self._tmp and not os.environ.get('VERIF_KEEP'):
            shutil.rmtree(self._tmp, ignore_errors=True)
        self._tmp = None

    def elapsed(self):
        return time.time() - self.t0

    # ---- bookkeeping ---------------------------------------------------
    def count(self, name, n=1):
        self.counters[name] = self.counters.get(name, 0) + n

    def case(self, key, nontrivial=True, sample=None):
        """Record one evaluated case; key identifies distinct cases."""
        self.evaluations += 1
        k = key if isinstance(key, str) else json.dumps(key, sort_keys=True, default=str)
        k = hashlib.md5(k.encode('utf-8', 'surrogatepass')).digest()[:10]
        if nontrivial:
            self.nontrivial_keys.add(k)
        self.distinct_keys.add(k)
        if sample is not None and len(self.samples) < self.max_samples:
            n = self.evaluations
            if n <= 2 or (n & (n - 1)) == 0:
                self.samples.append(sample)

    def note(self, msg):
        if len(self.notes) < 50:
            self.notes.append(msg)

    def inconclusive(self, why):
        self.inconclusives.append(why)

    def write_replay(self, data):
        d = os.path.join(VERIF, 'replays')
        os.makedirs(d, exist_ok=True)
        self._nreplay += 1
        p = os.path.join(d, '%s-%s-%d.json' % (self.prop_id, self.seed, self._nreplay))
        with open(p, 'w') as f:
            json.dump({'property': self.prop_id, 'seed': self.seed, 'tier': self.tier,
                       'data': data}, f, indent=1, default=repr)
        return p

    def violation(self, mech, msg, replay_data=None):
        """mech: the *mechanism* key computed by the check's classifier (code).
        A mechanism listed in known_findings.json is a KNOWN-FINDING; anything
        else is a VIOLATION."""
        if (self.prop_id, mech) in self.known:
            c, m = self.known_hits.get(mech, (0, msg))
            self.known_hits[mech] = (c + 1, m)
            return
        # keep at most 20 replay files
        if len(self.violations) < 20 or mech not in [v[0] for v in self.violations]:
            path = self.write_replay({'mechanism': mech, 'message': msg, 'case': replay_data})
        else:
            path = self.violations[-1][2]
        self.violations.append((mech, msg, path))

    def sanitizer(self, text, case=None, deciding=True, mech_prefix='sanitizer', mech_of=None):
        """Record sanitizer report blocks found in `text`; de-duplicated by
        (kind, top cffi frame).  deciding=True turns each into a violation."""
        for kind, frame, block in split_reports(text):
            key = '%s@%s' % (kind, frame)
            if is_benign(kind, frame, block):
                self.count('benign_sanitizer_reports_filtered')
                continue
            self.san_reports[key] = self.san_reports.get(key, 0) + 1
            if deciding:
                mech = mech_of(case, key, block) if mech_of else None
                self.violation(mech or '%s:%s' % (mech_prefix, key), block[:1500], case)

    # ---- finish --------------------------------------------------------
    def finish(self):
        wall = time.time() - self.t0
        cov = {
            'evaluations': self.evaluations,
            'distinct_nontrivial': len(self.nontrivial_keys),
            'distinct': len(self.distinct_keys),
            'rule': self.rule,
            'samples': self.samples,
            'counters': dict(sorted(self.counters.items())),
            'sanitizer_report_blocks': dict(self.san_reports),
            'known_findings_hit': {k: v[0] for k, v in self.known_hits.items()},
            'inconclusive': self.inconclusives[:20],
            'notes': self.notes,
            'exhaustive': bool(self.exhaustive),
        }
        cov.update(self.extra)
        ev = {
            'property_id': self.prop_id,
            'tier': self.tier,
            'seed': self.seed,
            'level': self.level,
            'coverage': cov,
            'assumptions': self.assumptions,
            'wall_s': round(wall, 2),
            'violations': len(self.violations),
        }
        d = os.path.join(VERIF, 'evidence')
        if os.path.abspath(build.REPO) != '/repo' or os.environ.get('VERIF_EVIDENCE_DIR'):
            # a run against another tree (seeded change, self-mutant) must not replace the
            # evidence of the repository under verification
            d = os.environ.get('VERIF_EVIDENCE_DIR') or os.path.join(VERIF, '.scratch',
                                                                     'evidence-other-tree')
        os.makedirs(d, exist_ok=True)
        tmp = os.path.join(d, '.%s.json.tmp%d' % (self.prop_id, os.getpid()))
        with open(tmp, 'w') as f:
            json.dump(ev, f, indent=1, default=repr, sort_keys=False)
            f.write('\n')
        os.rename(tmp, os.path.join(d, self.prop_id + '.json'))
        for mech, (c, m) in sorted(self.known_hits.items()):
            what = self.known[(self.prop_id, mech)]['what']
            print('KNOWN-FINDING: property=%s %s [%s] (%d observations; e.g. %s)' % (
                self.prop_id, what, mech, c, m[:200].replace('\n', ' ')))
        seen = set()
        for mech, msg, path in self.violations:
            if mech in seen:
                continue
            seen.add(mech)
            print('VIOLATION property=%s replay=%s' % (self.prop_id, path))
            print('  mechanism=%s: %s' % (mech, msg[:600].replace('\n', '\n    ')))
        print('%s tier=%s seed=%s evaluations=%d distinct_nontrivial=%d violations=%d '
              'known=%d wall=%.1fs' % (self.prop_id, self.tier, self.seed, self.evaluations,
                                       len(self.nontrivial_keys), len(self.violations),
                                       len(self.known_hits), wall))
        if self.counters:
            print('  counters: ' + ', '.join('%s=%s' % kv for kv in sorted(self.counters.items())))
        self.cleanup()
        if self.violations:
            return 1
        if self.inconclusives or self.evaluations == 0 or len(self.nontrivial_keys) < 2:
            print('INCONCLUSIVE property=%s: %s' % (
                self.prop_id, '; '.join(self.inconclusives[:5]) or 'monitor observed nothing'))
            return 2
        return 0


# ---------------------------------------------------------------------------
# sanitizer log parsing

_R_ASAN = re.compile(r'==\d+==\s*ERROR: AddressSanitizer: ([\w-]+)')
_R_UBSAN = re.compile(r'^(\S+?):(\d+):(\d+): runtime error: (.*)$', re.M)
_R_FRAME = re.compile(r'#\d+ 0x[0-9a-f]+ in (\S+) (\S+)')
_R_TSAN = re.compile(r'WARNING: ThreadSanitizer: ([^\(\n]+)')
_R_VG = re.compile(r'^==\d+== (Invalid (?:read|write) of size \d+|Conditional jump or move depends '
                   r'on uninitialised value\(s\)|Use of uninitialised value of size \d+|'
                   r'Invalid free\(\).*|Mismatched free\(\).*|Source and destination overlap.*|'
                   r'Syscall param .* uninitialised.*)$', re.M)
_R_VGFRAME = re.compile(r'(?:at|by) 0x[0-9A-F]+: (\S+) \(([^)]*)\)')


def _top_cffi_frame(block):
    for m in _R_FRAME.finditer(block):
        fn, loc = m.group(1), m.group(2)
        if '/src/c/' in loc or '_cffi_' in loc or 'cffi' in fn:
            return fn
    m = _R_FRAME.search(block)
    return m.group(1) if m else '?'


# Reports that are stricter than what correct code legitimately does
# (justified in DESIGN.md section 2.2); everything else is kept.
_BENIGN = [
    # &ctx->typenames->name with a NULL table and zero entries: the address is
    # formed by search_sorted() but the loop body never runs.
    (re.compile(r"ubsan:member access within null pointer of type 'const struct _cffi_"),
     re.compile(r'parse_c_type\.c:')),
    # cdl_4bytes(): '(signed char) << 24' of a negative byte when decoding the
    # big-endian words of an out-of-line module; two's-complement result is what
    # every supported compiler gives and what the decoder expects.
    (re.compile(r"ubsan:left shift of negative value"), re.compile(r'cdlopen\.c:')),
]


def is_benign(kind, frame, block):
    for rk, rf in _BENIGN:
        if rk.search(kind) and rf.search(frame):
            return True
    return False


def split_reports(text):
    """Yield (kind, frame, block) for each ASan/UBSan/TSan report block."""
    if not text:
        return []
    out = []
    # UBSan lines (each followed by optional stack)
    pos = [(m.start(), 'ubsan', m) for m in _R_UBSAN.finditer(text)]
    pos += [(m.start(), 'asan', m) for m in _R_ASAN.finditer(text)]
    pos += [(m.start(), 'tsan', m) for m in _R_TSAN.finditer(text)]
    pos += [(m.start(), 'memcheck', m) for m in _R_VG.finditer(text)]
    pos.sort(key=lambda x: x[0])
    for i, (st, k, m) in enumerate(pos):
        en = pos[i + 1][0] if i + 1 < len(pos) else len(text)
        block = text[st:en]
        if k == 'ubsan':
            msg = re.sub(r'-?\d+', 'N', m.group(4))
            msg = re.sub(r'0x[0-9a-f]+', 'P', msg)
            kind = 'ubsan:' + msg[:90]
            frame = '%s:%s' % (os.path.basename(m.group(1)), m.group(2))
        elif k == 'memcheck':
            kind = 'memcheck:' + re.sub(r'\d+', 'N', m.group(1))[:60]
            frame = '?'
            for fm in _R_VGFRAME.finditer(block):
                if '_cffi_backend' in fm.group(2) or '/src/c/' in fm.group(2) or \
                        re.search(r'\b(minibuffer|wchar_helper|realize_c_type|parse_c_type|'
                                  r'cdlopen|lib_obj|ffi_obj|cglob|call_python)', fm.group(2)):
                    frame = fm.group(1)
                    break
            if frame == '?':
                continue          # not in cffi code (interpreter / libc noise)
        elif k == 'asan':
            kind = 'asan:' + m.group(1)
            frame = _top_cffi_frame(block)
        else:
            kind = 'tsan:' + m.group(1).strip()
            frame = _top_cffi_frame(block)
        out.append((kind, frame, block))
    return out


# ---------------------------------------------------------------------------
# sharded child runner

def _run_shard(modname, setup, cases, idxs, variant, tmp, timeout, shard_no, extra_env):
    """Run cases[idxs] in one child (restarting after crashes).  Returns
    dict idx -> obs."""
    results = {}
    remaining = list(idxs)
    attempt = 0
    while remaining:
        attempt += 1
        base = os.path.join(tmp, 'sh%d_%d' % (shard_no, attempt))
        payload = base + '.in.json'
        outp = base + '.out.jsonl'
        with open(payload, 'w') as f:
            json.dump({'setup': setup, 'cases': [[i, cases[i]] for i in remaining],
                       'workdir': base + '.wd'}, f)
        logbase = base + '.san'
        env = build.child_env(variant, logbase=logbase, extra=extra_env)
        cmd = build.python_cmd(variant, logbase) if variant == 'memcheck' else \
            build.python_cmd(variant)
        cmd = cmd + ['-X', 'faulthandler', '-m', 'vlib.child',
                                           modname, payload, outp]
        t0 = time.time()
        try:
            p = subprocess.run(cmd, env=env, cwd=tmp, stdout=subprocess.PIPE,
                               stderr=subprocess.PIPE, timeout=timeout)
            rc, err, timed_out = p.returncode, p.stderr.decode(errors='replace'), False
        except subprocess.TimeoutExpired as e:
            rc, err, timed_out = -999, (e.stderr or b'').decode(errors='replace'), True
        started = None
        done = set()
        if os.path.exists(outp):
            with open(outp) as f:
                for line in f:
                    try:
                        rec = json.loads(line)
                    except ValueError:
                        continue
                    if 'start' in rec:
                        started = rec['start']
                    elif 'i' in rec:
                        results[rec['i']] = rec['obs']
                        if rec.get('san'):
                            results[rec['i']] = dict(rec['obs'], _san=rec['san']) \
                                if isinstance(rec['obs'], dict) else {'_value': rec['obs'],
                                                                      '_san': rec['san']}
                        done.add(rec['i'])
                        started = None
        remaining = [i for i in remaining if i not in done]
        if not remaining:
            break
        # the child died or timed out before finishing
        santext = ''
        for fn in os.listdir(tmp):
            if fn.startswith(os.path.basename(logbase)):
                try:
                    with open(os.path.join(tmp, fn), errors='replace') as f:
                        santext += f.read()
                except OSError:
                    pass
        if started is not None and started in remaining:
            culprit = started
        elif started is None and rc not in (0, -999) and attempt <= 3:
            # died outside a case (setup / import): infrastructure
            for i in remaining:
                results[i] = {'_infra': 'child failed rc=%s: %s' % (rc, err[-1500:])}
            break
        else:
            culprit = remaining[0]
        if timed_out:
            results[culprit] = {'_timeout': True, '_stderr': err[-1500:]}
        else:
            results[culprit] = {'_crash': rc, '_stderr': err[-3000:], '_san': santext[-6000:]}
        remaining = [i for i in remaining if i != culprit]
        if attempt > 25:
            for i in remaining:
                results[i] = {'_infra': 'too many child restarts'}
            break
    return results


def run_cases(ctx, modname, setup, cases, variant='asan', nproc=None, timeout=600,
              shard_size=None, extra_env=None):
    """Run `cases` through props.<modname>.child_case in sanitized children,
    sharded over nproc processes.  Returns list of obs aligned with cases."""
    if not cases:
        return []
    build.backend('plain' if variant == 'memcheck' else variant)
    if nproc is None:
        # ASan'd interpreters do not scale on this VM (page-fault handling is
        # serialised system-wide: 16 parallel children take 16x one child), so
        # sanitized work is kept in few processes; plain children scale ~4x.
        nproc = int(os.environ.get('VERIF_ASAN_NPROC', '2')) if variant == 'asan' else NPROC
    n = len(cases)
    if shard_size is None:
        shard_size = max(1, (n + nproc - 1) // nproc)
    shards = [list(range(i, min(n, i + shard_size))) for i in range(0, n, shard_size)]
    tmp = tempfile.mkdtemp(prefix='run-', dir=ctx.tmp)
    out = [None] * n
    with cf.ThreadPoolExecutor(max_workers=nproc) as ex:
        futs = [ex.submit(_run_shard, modname, setup, cases, sh, variant, tmp, timeout, k,
                          extra_env)
                for k, sh in enumerate(shards)]
        for fu in futs:
            for i, obs in fu.result().items():
                out[i] = obs
    if not os.environ.get('VERIF_KEEP'):
        shutil.rmtree(tmp, ignore_errors=True)
    return out


def std_obs_check(ctx, case, obs, crash_decides=True, san_decides=True, san_mech=None):
    """Common handling of infrastructure / crash / sanitizer side of an obs.
    Returns True if the obs is usable for the property's own judge."""
    if obs is None:
        ctx.inconclusive('no observation for a case')
        return False
    if not isinstance(obs, dict):
        return True
    if '_infra' in obs:
        ctx.inconclusive('infrastructure: ' + str(obs['_infra'])[:400])
        return False
    if '_timeout' in obs:
        ctx.inconclusive('watchdog fired on a case (inconclusive, not a violation)')
        return False
    if '_error' in obs:
        ctx.inconclusive('harness exception in child: ' + str(obs['_error'])[:600])
        return False
    if '_crash' in obs:
        ctx.count('child_crashes')
        if obs.get('_san'):
            ctx.sanitizer(obs['_san'], case, deciding=san_decides, mech_of=san_mech)
        if crash_decides:
            ctx.violation('crash:rc=%s' % obs['_crash'],
                          'child process died (rc=%s) while running the case\n%s' %
                          (obs['_crash'], obs.get('_stderr', '')[-1200:]), case)
        else:
            ctx.inconclusive('child crashed rc=%s' % obs['_crash'])
        return False
    if obs.get('_san'):
        ctx.sanitizer(obs['_san'], case, deciding=san_decides, mech_of=san_mech)
    return True


# ---------------------------------------------------------------------------
# generic driver

def drive(mod, ctx):
    if hasattr(mod, 'run'):
        mod.run(ctx)
        return
    setup, cases = mod.generate(ctx)
    obs = run_cases(ctx, mod.__name__.split('.')[-1], setup, cases,
                    variant=getattr(mod, 'VARIANT', 'asan'),
                    timeout=getattr(mod, 'TIMEOUT', 3600 if ctx.thorough else 900))
    for c, o in zip(cases, obs):
        if std_obs_check(ctx, c, o, getattr(mod, 'CRASH_DECIDES', True),
                         getattr(mod, 'SAN_DECIDES', True), getattr(mod, 'san_mechanism', None)):
            mod.judge(ctx, setup, c, o)
    n = getattr(mod, 'MEMCHECK_SAMPLE', 0)
    if n and (ctx.thorough or os.environ.get('VERIF_MEMCHECK')):
        # valgrind memcheck on a sample of the same cases (plain backend):
        # uninitialised-value use and invalid accesses that ASan cannot see.
        sample = cases[:n] if not hasattr(mod, 'memcheck_cases') else mod.memcheck_cases(ctx, cases)
        mobs = run_cases(ctx, mod.__name__.split('.')[-1], setup, sample, variant='memcheck',
                         nproc=min(8, len(sample)), timeout=3600)
        for c, o in zip(sample, mobs):
            ctx.count('memcheck_cases')
            if std_obs_check(ctx, c, o, getattr(mod, 'CRASH_DECIDES', True), True,
                             getattr(mod, 'san_mechanism', None)):
                mod.judge(ctx, setup, c, o)
    if hasattr(mod, 'finalize'):
        mod.finalize(ctx, setup)


def main(argv=None):
    import argparse, importlib
    ap = argparse.ArgumentParser()
    ap.add_argument('prop')
    ap.add_argument('--tier', default=os.environ.get('VERIF_TIER', 'quick'))
    ap.add_argument('--seed', type=int, default=int(os.environ.get('VERIF_SEED', '0') or 0))
    ap.add_argument('--replay')
    a = ap.parse_args(argv)
    pid = a.prop.upper()
    mod = importlib.import_module('props.' + pid.lower())
    tier = a.tier if a.tier in ('quick', 'thorough') else 'quick'
    ctx = Ctx(pid, tier, a.seed, getattr(mod, 'LEVEL', 'exploration'))
    ctx.rule = getattr(mod, 'RULE', '')
    ctx.assumptions = list(getattr(mod, 'ASSUMPTIONS', []))
    try:
        if a.replay:
            with open(a.replay) as f:
                data = json.load(f)
            ctx.seed = data.get('seed', ctx.seed)
            if hasattr(mod, 'replay'):
                mod.replay(ctx, data['data'])
            else:
                generic_replay(mod, ctx, data['data'])
            for mech, msg, path in ctx.violations:
                print('REPRODUCED mechanism=%s\n%s' % (mech, msg[:3000]))
            for mech, (c, m) in ctx.known_hits.items():
                print('REPRODUCED (known finding) mechanism=%s\n%s' % (mech, m[:3000]))
            if not ctx.violations and not ctx.known_hits:
                print('replay: no violation observed')
            ctx.cleanup()
            return 1 if ctx.violations else 0
        drive(mod, ctx)
    except Inconclusive as e:
        ctx.inconclusive(str(e))
    return ctx.finish()


def generic_replay(mod, ctx, data):
    case = data.get('case')
    if case is None:
        print('replay file has no case')
        return
    setup = case.get('_setup') if isinstance(case, dict) else None
    if setup is None and hasattr(mod, 'replay_setup'):
        setup = mod.replay_setup(ctx, case)
    obs = run_cases(ctx, mod.__name__.split('.')[-1], setup, [case],
                    variant=getattr(mod, 'VARIANT', 'asan'), nproc=1)
    print('observation:', json.dumps(obs[0], default=repr)[:3000])
    if std_obs_check(ctx, case, obs[0], getattr(mod, 'CRASH_DECIDES', True),
                     getattr(mod, 'SAN_DECIDES', True), getattr(mod, 'san_mechanism', None)):
        mod.judge(ctx, setup, case, obs[0])
        if hasattr(mod, 'finalize'):
            mod.finalize(ctx, setup)


# ---------------------------------------------------------------------------
# child-side reporter (for high-volume checks that judge inside the child,
# next to the real objects) and its parent-side counterpart

class ChildRep(object):
    def __init__(self, max_bad=40):
        self.bads = []
        self.nbad = 0
        self.stats = {}
        self.keys = set()
        self.n = 0
        self.samples = []
        self.max_bad = max_bad

    def case(self, key, nontrivial=True, sample=None):
        self.n += 1
        if nontrivial:
            k = key if isinstance(key, (str, bytes)) else repr(key)
            if isinstance(k, str):
                k = k.encode('utf-8', 'surrogatepass')
            self.keys.add(hashlib.md5(k).digest()[:6])
        if sample is not None and len(self.samples) < 3:
            self.samples.append(sample)

    def stat(self, name, n=1):
        self.stats[name] = self.stats.get(name, 0) + n

    def bad(self, mech, msg, detail=None):
        self.nbad += 1
        if len(self.bads) < self.max_bad or mech not in [b[0] for b in self.bads]:
            self.bads.append([mech, msg, detail])

    def result(self):
        import base64
        return {'n': self.n, 'bad': self.bads, 'nbad': self.nbad, 'stats': self.stats,
                'keys': base64.b64encode(b''.join(sorted(self.keys))).decode(),
                'samples': self.samples}


def absorb(ctx, case, obs, replay_of=None):
    """Parent side of ChildRep: merge counters, distinct keys, samples and
    turn reported mismatches into violations.  replay_of(detail) -> replay
    case for a mismatch (default: the whole case)."""
    import base64
    ctx.evaluations += obs['n']
    raw = base64.b64decode(obs['keys'])
    for i in range(0, len(raw), 6):
        k = raw[i:i + 6]
        ctx.nontrivial_keys.add(k)
        ctx.distinct_keys.add(k)
    for k, v in obs['stats'].items():
        ctx.count(k, v)
    for s in obs['samples']:
        if len(ctx.samples) < ctx.max_samples:
            ctx.samples.append(s)
    for mech, msg, detail in obs['bad']:
        rd = replay_of(detail) if replay_of else case
        if mech.startswith('harness'):
            ctx.inconclusive(msg)
        else:
            ctx.violation(mech, msg, rd)
