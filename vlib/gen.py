"""Shared generators: integer types, boundary lattices, floats, strings."""
import struct, math

# (name, size, signed)  -- x86-64 Linux facts are *not* trusted from here for
# oracles that ask the compiler; this table only drives generation and the
# pure range models (C06 checks the table against gcc).
INT_TYPES = [
    ('signed char', 1, True), ('unsigned char', 1, False),
    ('short', 2, True), ('unsigned short', 2, False),
    ('int', 4, True), ('unsigned int', 4, False),
    ('long', 8, True), ('unsigned long', 8, False),
    ('long long', 8, True), ('unsigned long long', 8, False),
    ('int8_t', 1, True), ('uint8_t', 1, False),
    ('int16_t', 2, True), ('uint16_t', 2, False),
    ('int32_t', 4, True), ('uint32_t', 4, False),
    ('int64_t', 8, True), ('uint64_t', 8, False),
    ('intptr_t', 8, True), ('uintptr_t', 8, False),
    ('size_t', 8, False), ('ssize_t', 8, True), ('ptrdiff_t', 8, True),
    ('intmax_t', 8, True), ('uintmax_t', 8, False),
    ('int_least8_t', 1, True), ('uint_least8_t', 1, False),
    ('int_least16_t', 2, True), ('uint_least16_t', 2, False),
    ('int_least32_t', 4, True), ('uint_least32_t', 4, False),
    ('int_least64_t', 8, True), ('uint_least64_t', 8, False),
    ('int_fast8_t', 1, True), ('uint_fast8_t', 1, False),
    ('int_fast16_t', 8, True), ('uint_fast16_t', 8, False),
    ('int_fast32_t', 8, True), ('uint_fast32_t', 8, False),
    ('int_fast64_t', 8, True), ('uint_fast64_t', 8, False),
]
CHAR_TYPES = [('char', 1, True), ('wchar_t', 4, True), ('char16_t', 2, False),
              ('char32_t', 4, False)]


def int_range(size, signed):
    bits = 8 * size
    if signed:
        return -(1 << (bits - 1)), (1 << (bits - 1)) - 1
    return 0, (1 << bits) - 1


def lattice(lo, hi, kmax=70):
    """Boundary lattice for an integer range [lo, hi]."""
    vals = {lo - 1, lo, lo + 1, -1, 0, 1, 2, hi - 1, hi, hi + 1, 1 << 100, -(1 << 100),
            (1 << 64), (1 << 64) + 1, -(1 << 64), (1 << 63), -(1 << 63) - 1, (1 << 128) - 1}
    for k in range(kmax + 1):
        for d in (-1, 0, 1):
            vals.add((1 << k) + d)
            vals.add(-(1 << k) + d)
    return sorted(vals)


def small_lattice(lo, hi):
    vals = {lo - 1, lo, lo + 1, -2, -1, 0, 1, 2, hi - 1, hi, hi + 1, hi + 2, lo - 2,
            2 * hi + 1, 2 * hi + 2, 2 * lo, 2 * lo - 1,
            1 << 31, (1 << 31) - 1, -(1 << 31), -(1 << 31) - 1, 1 << 32, (1 << 32) - 1,
            1 << 63, (1 << 63) - 1, -(1 << 63), -(1 << 63) - 1, 1 << 64, (1 << 64) - 1,
            (1 << 64) + 1, 1 << 100, -(1 << 100)}
    return sorted(vals)


def rand_int(rng, maxbits=70):
    b = rng.choice([3, 7, 8, 9, 15, 16, 17, 31, 32, 33, 63, 64, 65, maxbits, 130])
    v = rng.getrandbits(b)
    if rng.random() < 0.5:
        v = -v
    return v


def f64(bits):
    return struct.unpack('<d', struct.pack('<Q', bits))[0]


def f64_bits(x):
    return struct.unpack('<Q', struct.pack('<d', x))[0]


FLOAT_EDGES = [0.0, -0.0, 1.0, -1.0, 0.5, 1.5, 2.5, 0.1, 1e-45, 1.4e-45, 7e-46, 1e-46,
               1.1754943508222875e-38, 1.1754942e-38, 3.4028234663852886e+38,
               3.4028235677973366e+38, 3.4028235e38, 3.402823669209385e38, 1e39, -1e39,
               1e308, 1.7976931348623157e308, 5e-324, 2.2250738585072014e-308,
               16777216.0, 16777217.0, 16777218.0, 16777219.0, 0.1 + 0.2, 1 / 3.0,
               float('inf'), float('-inf'), float('nan'),
               2.0 ** 31, 2.0 ** 31 - 1, 2.0 ** 32, 2.0 ** 63, 2.0 ** 64, -2.0 ** 63,
               2.0 ** 53, 2.0 ** 53 + 2, 1.0000000596046448, 1.00000005960464489]


def rand_double(rng):
    r = rng.random()
    if r < 0.15:
        return rng.choice(FLOAT_EDGES)
    if r < 0.55:
        return f64(rng.getrandbits(64))
    if r < 0.75:
        # near float rounding boundaries: a float32 value +/- half ulp-ish
        f = struct.unpack('<f', struct.pack('<I', rng.getrandbits(32)))[0]
        if f != f or f in (float('inf'), float('-inf')):
            return f
        bits = f64_bits(f)
        return f64((bits + rng.choice([-1, 0, 1, (1 << 28), (1 << 28) - 1, (1 << 28) + 1,
                                        -(1 << 28)])) & ((1 << 64) - 1))
    if r < 0.9:
        k = rng.randrange(-70, 71)
        return math.ldexp(1.0, k) + rng.choice([-1.0, -0.5, 0.0, 0.5, 1.0])
    return rng.uniform(-1e6, 1e6)


def rand_str(rng, n=None, kinds=('ascii', 'bmp', 'astral', 'surrogate'), nonzero=True):
    if n is None:
        n = rng.choice([0, 1, 1, 2, 3, 5, 8, 17])
    out = []
    for _ in range(n):
        k = rng.choice(kinds)
        if k == 'ascii':
            c = rng.randrange(1 if nonzero else 0, 128)
        elif k == 'latin':
            c = rng.randrange(128, 256)
        elif k == 'bmp':
            c = rng.choice([rng.randrange(0x80, 0xD800), rng.randrange(0xE000, 0x10000),
                            0xFFFF, 0xFFFE, 0xFEFF, 0x100, 0xFF])
        elif k == 'astral':
            c = rng.choice([0x10000, 0x10FFFF, rng.randrange(0x10000, 0x110000)])
        else:
            c = rng.choice([0xD800, 0xDBFF, 0xDC00, 0xDFFF, rng.randrange(0xD800, 0xE000)])
        out.append(chr(c))
    return ''.join(out)


def rand_bytes(rng, n=None, nonzero=True):
    if n is None:
        n = rng.choice([0, 1, 1, 2, 3, 5, 8, 17, 40])
    return bytes(rng.randrange(1 if nonzero else 0, 256) for _ in range(n))
