"""Generator of whole cdef contexts (typedef chains, aggregates, enums,
integer constants, functions, globals) with the matching C source.

Used by C07/C08 (declaration contexts for type strings), C11, C12, C23, C25,
C31, C33, C34.  Types are gen_types descriptors extended with
  {'k':'typedef','name':..}  and  {'k':'enum','name':..}.
"""
import re
from . import gen_types as G

INT_T = ['int', 'unsigned int', 'short', 'unsigned short', 'long', 'unsigned long', 'long long',
         'unsigned long long', 'signed char', 'unsigned char', 'int8_t', 'uint16_t', 'int32_t',
         'uint64_t', 'size_t', 'ssize_t']
ARITH_T = INT_T + ['char', 'float', 'double', '_Bool']


def render_type(t, inner=''):
    k = t['k']
    if k == 'typedef':
        return (t['name'] + ' ' + inner).rstrip()
    if k == 'enum':
        return ('enum %s %s' % (t['name'], inner)).rstrip()
    if k == 'ptr':
        to = t['to']
        if to['k'] in ('array', 'fnptr2'):
            return render_type(to, '(*%s)' % inner)
        return render_type(to, '*' + inner)
    if k == 'array':
        n = '' if t['n'] is None else str(t['n'])
        return render_type(t['of'], '%s[%s]' % (inner, n))
    if k == 'fnptr2':      # function type: result/args are descriptors
        args = [render_type(a) for a in t['args']]
        if t['ell']:
            args.append('...')
        return render_type(t['res'], '%s(%s)' % (inner, ', '.join(args) or 'void'))
    return G.render_type(t, inner)


class Ctx(object):
    def __init__(self, rng, prefix='', nd=12, api=False, bitfields=True, funcs=True,
                 globals_=True, file_type=False):
        self.rng = rng
        self.p = prefix
        self.g = G.Gen(rng, prefix=prefix + 's', complex_ok=False, longdouble_ok=True)
        self.items = []          # ordered declarations: dicts with 'kind'
        self.typedefs = []
        self.enums = []
        self.consts = []
        self.funcs = []
        self.globs = []
        self.n = 0
        self.bitfields = bitfields
        kinds = ['typedef', 'typedef', 'agg', 'agg', 'enum', 'const', 'const']
        if funcs:
            kinds += ['func', 'func']
        if globals_:
            kinds += ['glob']
        for _ in range(nd):
            getattr(self, 'add_' + rng.choice(kinds))()

    def name(self, stem):
        self.n += 1
        return '%s%s%d' % (self.p, stem, self.n)

    # ---- types ---------------------------------------------------------
    def base_type(self, allow_agg=True, allow_void=False):
        r = self.rng.random()
        if r < 0.45:
            return {'k': 'prim', 'name': self.rng.choice(ARITH_T)}
        if r < 0.6 and self.typedefs:
            return {'k': 'typedef', 'name': self.rng.choice(self.typedefs)['name']}
        if r < 0.72 and self.enums:
            return {'k': 'enum', 'name': self.rng.choice(self.enums)['name']}
        if r < 0.85 and allow_agg and self.g.decls:
            d = self.rng.choice([a for a in self.g.decls if a['name']] or [None])
            if d is not None and not d['flex']:
                return {'k': 'agg', 'name': d['name'], 'kind': d['kind']}
        if allow_void and r > 0.95:
            return {'k': 'prim', 'name': 'void'}
        return {'k': 'prim', 'name': self.rng.choice(ARITH_T)}

    def scalar_type(self):
        """arithmetic, enum, or a typedef resolving to arithmetic/pointer"""
        for _ in range(8):
            t = self.base_type(allow_agg=False)
            r = self.resolve(t)
            if r['k'] in ('prim', 'enum') or (r['k'] == 'ptr' and r['to']['k'] != 'fnptr2'):
                return t
        return {'k': 'prim', 'name': 'int'}

    def any_type(self, depth=0):
        r = self.rng.random()
        if depth > 2 or r < 0.5:
            return self.base_type()
        if r < 0.75:
            return {'k': 'ptr', 'to': self.rng.choice([self.any_type(depth + 1),
                                                       {'k': 'prim', 'name': 'void'},
                                                       {'k': 'prim', 'name': 'char'}])}
        if r < 0.9:
            t = self.any_type(depth + 1)
            while t['k'] == 'fnptr2':
                t = self.base_type()
            return {'k': 'array', 'of': t, 'n': self.rng.choice([1, 2, 3, 4, 8])}
        return {'k': 'ptr', 'to': self.func_type(depth + 1)}

    def func_type(self, depth=0):
        args = []
        for _ in range(self.rng.randrange(0, 4)):
            a = self.scalar_type()
            if self.rng.random() < 0.3:
                a = {'k': 'ptr', 'to': a}
            args.append(a)
        res = self.scalar_type()
        if self.rng.random() < 0.2:
            res = {'k': 'prim', 'name': 'void'}
        elif self.rng.random() < 0.2:
            res = {'k': 'ptr', 'to': res}
        return {'k': 'fnptr2', 'args': args, 'res': res,
                'ell': bool(args) and self.rng.random() < 0.15}

    # ---- declarations --------------------------------------------------
    def add_typedef(self):
        nm = self.name('t')
        t = self.any_type()
        d = {'kind': 'typedef', 'name': nm, 'type': t,
             'text': 'typedef %s;' % render_type(t, nm)}
        self.typedefs.append(d)
        self.items.append(d)

    def add_agg(self):
        before = len(self.g.decls)
        self.g.toplevel(allow_packed=False, allow_bitfields=self.bitfields)
        for a in self.g.decls[before:]:
            d = {'kind': 'agg', 'name': a['name'], 'agg': a, 'text': G.render_decl_c(a)}
            self.items.append(d)

    def add_enum(self):
        nm = self.name('e')
        rng = self.rng
        vals = []
        cur = -1
        names = []
        for i in range(rng.choice([1, 2, 3, 5])):
            en = ('%sE%d_%d' % (self.p, self.n, i)).upper()
            if rng.random() < 0.5:
                cur = rng.choice([0, 1, 5, -1, -3, 100, 255, 65536, 2 ** 31 - 9, cur + 1,
                                  rng.randint(-1000, 1000)])
                names.append('%s = %d' % (en, cur))
            else:
                cur += 1
                names.append(en)
            vals.append((en, cur))
        d = {'kind': 'enum', 'name': nm, 'values': vals,
             'text': 'enum %s { %s };' % (nm, ', '.join(names))}
        self.enums.append(d)
        self.items.append(d)

    def add_const(self):
        nm = self.name('K').upper()
        rng = self.rng
        v = rng.choice([0, 1, 7, 42, 255, 256, 65535, 2 ** 31 - 1, rng.randint(0, 10 ** 6),
                        2 ** 31, 2 ** 32 - 1, 2 ** 63 - 1, 2 ** 63, 2 ** 64 - 1])
        if v >= 2 ** 31 and rng.random() < 0.75:
            lit = rng.choice(['0x%x', '%dULL', '0x%XuLL']) % v
            d = {'kind': 'const', 'name': nm, 'value': v, 'form': 'define',
                 'text': '#define %s %s' % (nm, lit), 'ctext': '#define %s %s' % (nm, lit)}
        elif rng.random() < 0.5:
            v = v if v < 2 ** 31 else 7
            lit = rng.choice(['%d', '0x%x', '0%o' if v else '%d', '%dU', '%dL']) % v
            d = {'kind': 'const', 'name': nm, 'value': v, 'form': 'define',
                 'text': '#define %s %s' % (nm, lit), 'ctext': '#define %s %s' % (nm, lit)}
        else:
            v = v if v < 2 ** 31 else 11
            T = rng.choice(['int', 'long', 'unsigned int', 'long long', 'short'])
            neg = rng.random() < 0.3 and T != 'unsigned int'
            if T == 'short':
                v = v % 30000
            if neg:
                v = -v
            d = {'kind': 'const', 'name': nm, 'value': v, 'form': 'static',
                 'text': 'static const %s %s = %d;' % (T, nm, v),
                 'ctext': 'static const %s %s = %d;' % (T, nm, v)}
        self.consts.append(d)
        self.items.append(d)

    def add_func(self):
        nm = self.name('f')
        ft = self.func_type()
        ft['ell'] = False
        args = ', '.join(render_type(a, 'a%d' % i) for i, a in enumerate(ft['args'])) or 'void'
        proto = render_type(ft['res'], '%s(%s)' % (nm, args))
        d = {'kind': 'func', 'name': nm, 'ftype': ft, 'text': proto + ';',
             'cdef': proto + ' { %s }' % self.func_body(ft)}
        self.funcs.append(d)
        self.items.append(d)

    def is_arith(self, t):
        if t['k'] == 'prim':
            return t['name'] != 'void'
        if t['k'] == 'enum':
            return True
        if t['k'] == 'typedef':
            return self.is_arith(self.resolve(t))
        return False

    def resolve(self, t):
        while t['k'] == 'typedef':
            t = [d for d in self.typedefs if d['name'] == t['name']][0]['type']
        return t

    def func_body(self, ft):
        res = self.resolve(ft['res'])
        if res['k'] == 'prim' and res['name'] == 'void':
            return ''
        terms = ['%d' % self.rng.randint(1, 9)]
        for i, a in enumerate(ft['args']):
            if self.is_arith(a):
                terms.append('(%d * (long long)a%d)' % (i + 2, i))
        if self.is_arith(ft['res']):
            if res['k'] == 'prim' and res['name'] == '_Bool':
                return 'return ((%s) & 1);' % ' + '.join(terms)
            return 'return (%s)(%s);' % (render_type(ft['res']), ' + '.join(terms))
        return 'return 0;'

    def add_glob(self):
        nm = self.name('g')
        t = self.base_type(allow_agg=True)
        if self.rng.random() < 0.3:
            t = {'k': 'array', 'of': self.base_type(allow_agg=False),
                 'n': self.rng.choice([1, 3, 5])}
        elif self.rng.random() < 0.2:
            t = {'k': 'ptr', 'to': t}
        d = {'kind': 'glob', 'name': nm, 'type': t,
             'text': 'extern %s;' % render_type(t, nm), 'cdef': render_type(t, nm) + ';'}
        self.globs.append(d)
        self.items.append(d)

    # ---- output --------------------------------------------------------
    def cdef_text(self):
        return '\n'.join(d['text'] for d in self.items) + '\n'

    def c_source(self):
        """definitions matching the cdef (for API modules and dlopen'ed .so)"""
        out = ['#include <stdint.h>', '#include <stddef.h>', '#include <sys/types.h>',
               '#include <wchar.h>', '#include <uchar.h>']
        for d in self.items:
            if d['kind'] in ('typedef', 'agg', 'enum'):
                out.append(d['text'])
            elif d['kind'] == 'const':
                out.append(d['ctext'])
            elif d['kind'] in ('func', 'glob'):
                out.append(d['cdef'])
        return '\n'.join(out) + '\n'


_TOKEN = re.compile(r'\s*(\.\.\.|[A-Za-z_][A-Za-z_0-9]*|0[xX][0-9a-fA-F]+[uUlL]*|\d+[uUlL]*|'
                    r'"[^"]*"|.)', re.S)


def tokenize_line(line):
    return [m.group(1) for m in _TOKEN.finditer(line) if m.group(1).strip()]
