"""Building cffi modules from specs, in child processes that use /repo/src's
cffi package and a backend rebuilt from the working tree.

spec = {'name': str, 'kind': 'api'|'abi', 'cdef': str | [str...], 'source': str|None,
        'dir': target directory, 'includes': [names of modules in the same dir],
        'kwds': {...}, 'packed'/'pack' via 'cdef_kwds'}
Run as:  python -m vlib.modbuild spec.json   (prints JSON result)
"""
import os, sys, json, subprocess
import concurrent.futures as cf


def _build_one(spec):
    import importlib
    sys.path.insert(0, spec['dir'])
    from cffi import FFI
    ffi = FFI()
    for inc in spec.get('includes', []):
        m = importlib.import_module(inc + '_build')
        ffi.include(m.ffi)
    cdefs = spec['cdef'] if isinstance(spec['cdef'], list) else [spec['cdef']]
    for c in cdefs:
        if isinstance(c, dict):
            ffi.cdef(c['text'], **c.get('kwds', {}))
        else:
            ffi.cdef(c)
    if spec['kind'] == 'api':
        kw = dict(spec.get('kwds', {}))
        ffi.set_source(spec['name'], spec['source'], **kw)
    else:
        ffi.set_source(spec['name'], None)
    if spec.get('embedding_init'):
        ffi.embedding_init_code(spec['embedding_init'])
    # keep a <name>_build.py around so that includers can rebuild the FFI
    with open(os.path.join(spec['dir'], spec['name'] + '_build.py'), 'w') as f:
        f.write('import json, os, sys\nsys.path.insert(0, %r)\nfrom vlib.modbuild import '
                'ffi_from_spec\nffi = ffi_from_spec(json.load(open(%r)))\n'
                % (os.path.dirname(os.path.dirname(os.path.abspath(__file__))),
                   spec['_path']))
    if spec['kind'] == 'api':
        if spec.get('emit_only'):
            out = os.path.join(spec['dir'], spec['name'] + '.c')
            ffi.emit_c_code(out)
            return out
        return ffi.compile(tmpdir=spec['dir'], verbose=False)
    else:
        out = os.path.join(spec['dir'], spec['name'] + '.py')
        ffi.emit_python_code(out)
        return out


def ffi_from_spec(spec):
    import importlib
    sys.path.insert(0, spec['dir'])
    from cffi import FFI
    ffi = FFI()
    for inc in spec.get('includes', []):
        m = importlib.import_module(inc + '_build')
        ffi.include(m.ffi)
    cdefs = spec['cdef'] if isinstance(spec['cdef'], list) else [spec['cdef']]
    for c in cdefs:
        if isinstance(c, dict):
            ffi.cdef(c['text'], **c.get('kwds', {}))
        else:
            ffi.cdef(c)
    if spec['kind'] == 'api':
        ffi.set_source(spec['name'], spec['source'], **spec.get('kwds', {}))
    else:
        ffi.set_source(spec['name'], None)
    return ffi


def main():
    path = sys.argv[1]
    with open(path) as f:
        spec = json.load(f)
    spec['_path'] = path
    try:
        # silence the compiler's chatter on fd 1/2
        out = _build_one(spec)
        res = {'ok': True, 'path': out}
    except Exception as e:
        import traceback
        res = {'ok': False, 'error': '%s: %s' % (type(e).__name__, str(e)[-3000:]),
               'tb': traceback.format_exc()[-2000:]}
    sys.stdout.flush()
    with open(path + '.result', 'w') as f:
        json.dump(res, f)


def build_modules(ctx, specs, variant='plain', nproc=16, cflags=None, sequential=False):
    """Build all specs (parallel).  Returns {name: result dict}.  Specs with
    'includes' must come after the modules they include and are built in a
    second pass."""
    from . import build
    env = build.child_env(variant)
    if cflags:
        env['CFLAGS'] = cflags
    results = {}

    def one(spec):
        os.makedirs(spec['dir'], exist_ok=True)
        p = os.path.join(spec['dir'], spec['name'] + '.spec.json')
        with open(p, 'w') as f:
            json.dump(spec, f)
        r = subprocess.run(build.python_cmd(variant) + ['-m', 'vlib.modbuild', p], env=env,
                           cwd=spec['dir'], stdout=subprocess.PIPE, stderr=subprocess.STDOUT,
                           timeout=600)
        try:
            with open(p + '.result') as f:
                res = json.load(f)
        except (OSError, ValueError):
            res = {'ok': False, 'error': 'builder died rc=%s: %s' % (
                r.returncode, r.stdout.decode(errors='replace')[-3000:])}
        if not res['ok']:
            res['log'] = r.stdout.decode(errors='replace')[-3000:]
        return spec['name'], res
    first = [s for s in specs if not s.get('includes')]
    later = [s for s in specs if s.get('includes')]
    with cf.ThreadPoolExecutor(max_workers=nproc) as ex:
        for name, res in ex.map(one, first):
            results[name] = res
    for s in later:     # include chains: sequential, in the given order
        name, res = one(s)
        results[name] = res
    return results


if __name__ == '__main__':
    main()
