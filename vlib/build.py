"""Builds of the C backend from /repo's *current working tree*.

Variants:
  asan  : clang -fsanitize=address,undefined (minus pointer-overflow), shared asan runtime
  plain : gcc, the flags setup.py uses (valgrind, fast differential runs)
  tsan  : clang -fsanitize=thread + harness/pytsan launcher

Cache: /verif/.build/<variant>-<hash>/ keyed by the content hash of src/c and
src/cffi/*.h, serialised by an flock; re-created when missing.
"""
import os, sys, hashlib, subprocess, fcntl, shutil, sysconfig, glob, time

VERIF = os.path.dirname(os.path.dirname(os.path.abspath(__file__)))
REPO = os.environ.get('VERIF_REPO', '/repo')
PY = os.environ.get('VERIF_PYTHON', '/venv/bin/python')
BUILD = os.path.join(VERIF, '.build')
GUARD = 'PYTHON_CFFI_CFFI_VERIF'

_PYINC = None


def pyconf():
    global _PYINC
    if _PYINC is None:
        out = subprocess.check_output([PY, '-c', (
            "import sysconfig,json;print(json.dumps({"
            "'inc':sysconfig.get_paths()['include'],"
            "'libdir':sysconfig.get_config_var('LIBDIR'),"
            "'ext':sysconfig.get_config_var('EXT_SUFFIX'),"
            "'ver':sysconfig.get_config_var('LDVERSION')}))")])
        import json
        _PYINC = json.loads(out)
    return _PYINC


def tree_hash(extra=()):
    h = hashlib.sha256()
    files = sorted(glob.glob(os.path.join(REPO, 'src/c/*.[ch]')) +
                   glob.glob(os.path.join(REPO, 'src/cffi/*.h')))
    for f in files:
        h.update(f.encode())
        with open(f, 'rb') as fp:
            h.update(fp.read())
    for e in extra:
        h.update(str(e).encode())
    return h.hexdigest()[:16]


def asan_rt():
    return subprocess.check_output(
        ['clang', '-print-file-name=libclang_rt.asan-x86_64.so']).decode().strip()


SAN_FLAGS = ['-fsanitize=address,undefined', '-fno-sanitize=pointer-overflow,alignment',
             '-fsanitize-recover=address,undefined', '-shared-libasan']

COMMON_DEFS = ['-DUSE__THREAD', '-DHAVE_SYNC_SYNCHRONIZE', '-DFFI_BUILDING=1']


def _lock():
    os.makedirs(BUILD, exist_ok=True)
    fp = open(os.path.join(BUILD, 'lock'), 'w')
    fcntl.flock(fp, fcntl.LOCK_EX)
    return fp


def _prune(variant, keep):
    for d in glob.glob(os.path.join(BUILD, variant + '-*')):
        if d != keep and os.path.isdir(d):
            # only prune old ones (another tree hash), never one in use right now
            try:
                m = os.path.join(d, '.used')
                if time.time() - os.path.getmtime(m if os.path.exists(m) else d) > 6 * 3600:
                    shutil.rmtree(d, ignore_errors=True)
            except OSError:
                pass


def backend(variant='asan'):
    """Return the directory holding _cffi_backend<EXT> built from the current tree."""
    conf = pyconf()
    h = tree_hash([variant] + SAN_FLAGS + COMMON_DEFS)
    d = os.path.join(BUILD, '%s-%s' % (variant, h))
    so = os.path.join(d, '_cffi_backend' + conf['ext'])
    if os.path.exists(so):
        # mark as in use for _prune().  Not os.utime(d): the directory is on the children's
        # sys.path and importlib re-lists a path entry whose mtime changes, which made
        # syscall sequences of running children non-reproducible (C23's strace part).
        try:
            with open(os.path.join(d, '.used'), 'a'):
                pass
            os.utime(os.path.join(d, '.used'))
        except OSError:
            pass
        return d
    lk = _lock()
    try:
        if os.path.exists(so):
            return d
        tmpd = d + '.tmp%d' % os.getpid()
        shutil.rmtree(tmpd, ignore_errors=True)
        os.makedirs(tmpd)
        src = os.path.join(REPO, 'src/c/_cffi_backend.c')
        inc = ['-I' + conf['inc'], '-I/usr/include/ffi', '-I/usr/include/libffi']
        out = os.path.join(tmpd, '_cffi_backend' + conf['ext'])
        defs = list(COMMON_DEFS)
        if os.environ.get(GUARD):
            defs.append('-D%s=1' % GUARD)
        if variant == 'asan':
            cmd = ['clang', '-O1', '-g', '-fno-omit-frame-pointer'] + SAN_FLAGS + \
                  ['-fPIC', '-shared'] + defs + inc + [src, '-o', out, '-lffi']
        elif variant == 'plain':
            cmd = ['gcc', '-O2', '-g', '-fPIC', '-shared', '-pthread'] + defs + inc + \
                  [src, '-o', out, '-lffi']
        elif variant == 'tsan':
            cmd = ['clang', '-O1', '-g', '-fno-omit-frame-pointer', '-fsanitize=thread',
                   '-fPIC', '-shared'] + defs + inc + [src, '-o', out, '-lffi']
        else:
            raise ValueError(variant)
        r = subprocess.run(cmd, stdout=subprocess.PIPE, stderr=subprocess.STDOUT)
        if r.returncode != 0:
            sys.stderr.write(r.stdout.decode(errors='replace')[-4000:])
            raise RuntimeError('backend build failed (%s)' % variant)
        if variant == 'tsan':
            launcher = os.path.join(tmpd, 'pytsan')
            lsrc = os.path.join(VERIF, 'harness', 'pytsan.c')
            cmd = ['clang', '-O1', '-g', '-fsanitize=thread', '-I' + conf['inc'], lsrc,
                   '-o', launcher, '-L' + conf['libdir'], '-lpython' + conf['ver'],
                   '-Wl,-rpath,' + conf['libdir']]
            r = subprocess.run(cmd, stdout=subprocess.PIPE, stderr=subprocess.STDOUT)
            if r.returncode != 0:
                sys.stderr.write(r.stdout.decode(errors='replace')[-4000:])
                raise RuntimeError('pytsan build failed')
        os.rename(tmpd, d)
        _prune(variant, d)
        return d
    finally:
        lk.close()


def child_env(variant='asan', logbase=None, extra=None, hashseed='0'):
    """Environment for a python subprocess that uses the given backend variant."""
    d = backend('plain' if variant == 'memcheck' else variant)
    env = {k: v for k, v in os.environ.items()
           if k not in ('PYTHONPATH', 'LD_PRELOAD', 'PYTHONHOME')}
    env['PYTHONPATH'] = os.pathsep.join([d, os.path.join(REPO, 'src'), VERIF])
    env['PYTHONHASHSEED'] = hashseed
    env['PYTHONDONTWRITEBYTECODE'] = '1'
    env[GUARD] = '1'
    if variant == 'asan':
        env['LD_PRELOAD'] = asan_rt()
        env['PYTHONMALLOC'] = 'malloc'
        opts = 'detect_leaks=0:halt_on_error=0:abort_on_error=0:allocator_may_return_null=1:' \
               'detect_stack_use_after_return=0:handle_segv=1:symbolize=1:' \
               'quarantine_size_mb=16:malloc_context_size=6'
        uopts = 'print_stacktrace=1:halt_on_error=0'
        if logbase:
            opts += ':log_path=' + logbase
            uopts += ':log_path=' + logbase
        env['ASAN_OPTIONS'] = opts
        env['UBSAN_OPTIONS'] = uopts
        env['ASAN_SYMBOLIZER_PATH'] = shutil.which('llvm-symbolizer') or \
            '/usr/lib/llvm-14/bin/llvm-symbolizer'
    elif variant == 'memcheck':
        env['PYTHONMALLOC'] = 'malloc'
        if logbase:
            env['VERIF_MEMCHECK_LOG'] = logbase
    elif variant == 'tsan':
        # the launcher is not the venv's interpreter: add its site-packages
        import glob as _g
        sp = _g.glob('/venv/lib/python3*/site-packages')
        env['PYTHONPATH'] = os.pathsep.join([env['PYTHONPATH']] + sp)
        opts = 'halt_on_error=0:second_deadlock_stack=1:history_size=4'
        if logbase:
            opts += ':log_path=' + logbase
        env['TSAN_OPTIONS'] = opts
    if extra:
        env.update(extra)
    return env


def python_cmd(variant='asan', logbase=None):
    if variant == 'tsan':
        return [os.path.join(backend('tsan'), 'pytsan')]
    if variant == 'memcheck':
        return ['valgrind', '-q', '--tool=memcheck', '--error-exitcode=0', '--num-callers=12',
                '--log-file=%s.%%p' % (logbase or '/dev/null'), PY]
    return [PY]


if __name__ == '__main__':
    for v in sys.argv[1:] or ['asan', 'plain']:
        t = time.time()
        print(v, backend(v), '%.1fs' % (time.time() - t))
