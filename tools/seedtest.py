#!/usr/bin/env python3
"""Confirm a seeded defect and run the checks against it.

  tools/seedtest.py <dir with patch.diff, demo.py|demo.sh, meta.json> [--suite] [--checks C15,C18]
                    [--tier quick] [--keep-as NAME]

Steps (all in a scratch git worktree of /repo under /tmp/wt, removed afterwards):
  1. demo on the clean worktree must exit 0
  2. git apply patch.diff; rebuild in place; demo must exit non-zero
  3. (--suite) the repository's test suite must still pass with the patch
  4. ./check <ID> with VERIF_REPO=<worktree> for each check: expect exit 1 + VIOLATION
     (equivalent to `git -C /repo apply` + run + `git -C /repo checkout -- .`, but does
     not disturb other runs that read /repo)
  5. (--keep-as) copy patch/demo/meta + results into /verif/seeded/NAME/
"""
import sys, os, json, subprocess, shutil, argparse, time

VERIF = os.path.dirname(os.path.dirname(os.path.abspath(__file__)))
PY = '/venv/bin/python'


def sh(cmd, cwd=None, env=None, timeout=3600):
    r = subprocess.run(cmd, cwd=cwd, env=env, shell=isinstance(cmd, str), stdout=subprocess.PIPE,
                       stderr=subprocess.STDOUT, timeout=timeout)
    return r.returncode, r.stdout.decode(errors='replace')


def main():
    ap = argparse.ArgumentParser()
    ap.add_argument('dir')
    ap.add_argument('--suite', action='store_true')
    ap.add_argument('--checks')
    ap.add_argument('--tier', default='quick')
    ap.add_argument('--seed', default='0')
    ap.add_argument('--keep-as')
    ap.add_argument('--skip-demo', action='store_true')
    a = ap.parse_args()
    d = os.path.abspath(a.dir)
    meta = json.load(open(os.path.join(d, 'meta.json')))
    prop = meta['property']
    checks = a.checks.split(',') if a.checks else [prop]
    name = a.keep_as or os.path.basename(d.rstrip('/'))
    wt = '/tmp/wt/st_%s_%d' % (name, os.getpid())
    res = {'property': prop, 'name': name, 'ran': time.strftime('%Y-%m-%d %H:%M:%S')}
    rc, out = sh(['git', '-C', '/repo', 'worktree', 'add', '-q', '--detach', wt, 'HEAD'])
    if rc:
        print(out)
        return 2
    try:
        env = dict(os.environ, PYTHONPATH=os.path.join(wt, 'src'))
        demo = 'demo.py' if os.path.exists(os.path.join(d, 'demo.py')) else 'demo.sh'
        democmd = [PY, os.path.join(d, demo)] if demo.endswith('.py') else ['sh', os.path.join(d, demo)]

        def build():
            sh('touch src/c/_cffi_backend.c', cwd=wt)
            return sh([PY, 'setup.py', '-q', 'build_ext', '--inplace'], cwd=wt)
        if not a.skip_demo:
            build()
            rc0, out0 = sh(democmd, cwd=wt, env=env, timeout=600)
            res['demo_clean_rc'] = rc0
        rc, out = sh(['git', 'apply', os.path.join(d, 'patch.diff')], cwd=wt)
        if rc:
            print('patch does not apply:', out)
            res['applies'] = False
            print(json.dumps(res))
            return 2
        res['applies'] = True
        if not a.skip_demo:
            rcb, outb = build()
            res['builds'] = os.path.exists(os.path.join(wt, 'src')) and ' error' not in outb.lower()
            rc1, out1 = sh(democmd, cwd=wt, env=env, timeout=600)
            res['demo_patched_rc'] = rc1
            res['demo_patched_tail'] = out1[-400:]
        if a.suite:
            t = time.time()
            rc, out = sh([PY, '-m', 'pytest', '-q', '-p', 'no:cacheprovider', '--timeout=900',
                          '--continue-on-collection-errors'], cwd=wt, env=env, timeout=7200)
            res['suite'] = out.strip().splitlines()[-1] if out.strip() else ''
            res['suite_rc'] = rc
            res['suite_s'] = round(time.time() - t)
        res['checks'] = {}
        for c in checks:
            env2 = dict(os.environ, VERIF_REPO=wt, VERIF_SEED=a.seed)
            t = time.time()
            rc, out = sh([os.path.join(VERIF, 'check'), c, '--tier', a.tier, '--seed', a.seed],
                         cwd=VERIF, env=env2, timeout=7200)
            viol = [l for l in out.splitlines() if l.startswith('VIOLATION')]
            mech = [l.strip()[:300] for l in out.splitlines() if l.strip().startswith('mechanism=')]
            res['checks'][c] = {'rc': rc, 'violations': len(viol), 'mechanisms': mech[:6],
                                'wall_s': round(time.time() - t, 1),
                                'summary': [l for l in out.splitlines() if l.startswith(c + ' tier=')][-1:]}
        caught = [c for c, r in res['checks'].items() if r['rc'] == 1 and r['violations']]
        res['caught_by'] = caught
        print(json.dumps(res, indent=1))
        if a.keep_as:
            dst = os.path.join(VERIF, 'seeded', a.keep_as)
            os.makedirs(dst, exist_ok=True)
            for f in os.listdir(d):
                if f in ('patch.diff', 'demo.py', 'demo.sh') or f.endswith('.c') or f.endswith('.h'):
                    if os.path.abspath(d) != os.path.abspath(dst):
                        shutil.copy(os.path.join(d, f), dst)
            meta['verified'] = res
            with open(os.path.join(dst, 'meta.json'), 'w') as f:
                json.dump(meta, f, indent=1)
        return 0 if caught else 1
    finally:
        sh(['git', '-C', '/repo', 'worktree', 'remove', '--force', wt])
        shutil.rmtree(wt, ignore_errors=True)


if __name__ == '__main__':
    sys.exit(main())
