#!/bin/sh
# usage: tools/seedbatch.sh C11 C22 ...   (runs seedtest on /tmp/wt/<ID>/_seed/<ID>-{1,2};
#        ROUND=2 tools/seedbatch.sh C11 -> /tmp/wt/<ID>_r2/_seed/<ID>-{3,4})
R=${ROUND:-1}
for p in "$@"; do for k in $((2*R-1)) $((2*R)); do
if [ "$R" = 1 ]; then d=/tmp/wt/$p/_seed/$p-$k; else d=/tmp/wt/${p}_r$R/_seed/$p-$k; fi
[ -d $d ] || continue
python3 tools/seedtest.py $d --keep-as $p-$k 2>&1 | python3 -c "
import sys,json
t=sys.stdin.read()
try:
    d=json.loads(t[t.index('{'):])
    print(d['name'],'demo clean/patched',d.get('demo_clean_rc'),d.get('demo_patched_rc'),'caught_by',d['caught_by'],[ (c,r['rc'],[m[:150] for m in r['mechanisms'][:2]]) for c,r in d['checks'].items()])
except Exception as e: print('ERR',t[-500:])
" | cut -c1-520; done; done
