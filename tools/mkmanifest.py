#!/usr/bin/env python3
"""Generate MANIFEST.json from the table below (single source of truth)."""
import json, os
here = os.path.dirname(os.path.dirname(os.path.abspath(__file__)))

# id -> (technique, level text, level note, design ref)
CHECKS = {}
def C(pid, technique, text, note, ref=None, category='exploration'):
    CHECKS[pid] = dict(technique=technique, text=text, note=note, ref=ref or ('DESIGN.md section 3, ' + pid),
                       category=category)

exec(open(os.path.join(here, 'tools', 'manifest_table.py')).read())

props = [json.loads(l)['id'] for l in open(os.path.join(here, 'properties.jsonl'))]
checks = []
na = []
for pid in props:
    if pid in CHECKS and os.path.exists(os.path.join(here, 'props', pid.lower() + '.py')):
        c = CHECKS[pid]
        checks.append({
            'property_id': pid,
            'quick_cmd': './check %s --tier quick' % pid,
            'thorough_cmd': './check %s --tier thorough' % pid,
            'evidence_file': '/verif/evidence/%s.json' % pid,
            'replay_cmd_template': './check %s --replay {path}' % pid,
            'engine': 'runtime-monitor',
            'level_claimed': {'category': c['category'], 'text': c['text'], 'design_ref': c['ref']},
            'level_note': c['note'] + ' Input classes, entry points and oracles were extended by the audit recorded in DESIGN.md section 6.1; coverage.rule in the evidence file is the current description of what a run generates.',
            'technique': c['technique'],
        })
    else:
        na.append({'property_id': pid, 'reason': NA.get(pid, 'check not built yet in this session (work in progress; planned per DESIGN.md section 3)')})
m = {
    'version': 1,
    'setup_cmd': './setup.sh',
    'hooks': {
        'guard': 'PYTHON_CFFI_CFFI_VERIF',
        'enable': 'no source hooks are needed: checks rebuild src/c/_cffi_backend.c from /repo\'s working tree with clang sanitizers (vlib/build.py) and put /repo/src first on sys.path; the guard variable is exported to every child (and -D defined) so that a future hook would be switched on',
        'baseline_off_cmd': 'cd /repo && env -u PYTHON_CFFI_CFFI_VERIF /venv/bin/python -m pytest -ra -q -p no:cacheprovider --timeout=900 --continue-on-collection-errors',
        'source_commits': HOOK_COMMITS,
        'add_only': True,
    },
    'engines': [{'name': 'runtime-monitor', 'path': '/verif/check',
                 'serves_properties': [c['property_id'] for c in checks],
                 'kind_free_text': 'runtime monitoring: generated/hostile workloads on the real cffi code (backend rebuilt with ASan+UBSan / TSan, valgrind on thorough tiers) observed by differential oracles (gcc, second cffi path), reference models over operation histories, event-log checkers and fault injection'}],
    'checks': checks,
    'notes': NOTES,
    'not_applicable': na,
}
with open(os.path.join(here, 'MANIFEST.json'), 'w') as f:
    json.dump(m, f, indent=1)
    f.write('\n')
print('claimed', len(checks), 'not claimed', len(na))
