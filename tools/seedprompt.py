#!/usr/bin/env python3
"""Print the prompt given to a mutation sub-agent for one property (only the
property text and a scratch worktree; nothing from /verif)."""
import json, sys
pid = sys.argv[1]
rnd = int(sys.argv[2]) if len(sys.argv) > 2 else 1      # round 2: other mechanisms, ids -3/-4
wt = '/tmp/wt/' + pid + ('' if rnd == 1 else '_r%d' % rnd)
import os
used = []
if rnd > 1:
    for k in range(1, 2 * rnd - 1):
        mp = '/verif/seeded/%s-%d/meta.json' % (pid, k)
        if os.path.exists(mp):
            m = json.load(open(mp))
            used.append('  - %s (files: %s)' % (m['summary'], ', '.join(m.get('files', []))))
K1, K2 = 2 * rnd - 1, 2 * rnd
for l in open('/verif/properties.jsonl'):
    p = json.loads(l)
    if p['id'] == pid:
        break
print(f"""You are helping to test a verification effort for the open-source project python-cffi/cffi (CFFI: the C Foreign Function Interface for Python, with its C backend `_cffi_backend`).

Your own scratch git worktree of the project is at {wt} (already created, already built once in-place). Work ONLY inside {wt}. Never touch /repo and never read anything under /verif.

THE PROPERTY (a semantic guarantee of cffi that is supposed to hold for every input / history / schedule):

  Title: {p['title']}
  Statement: {p['statement']}
  Quantified over: {p['quantifier']['text']}
  Code anchors (files where the mechanism lives): {', '.join(p['anchors']['files'])}

YOUR TASK: produce TWO different, independent, realistic source changes ("seeded defects") to the cffi source in the worktree (files under src/c/ or src/cffi/), each of which BREAKS THIS PROPERTY while:
  (a) the project still compiles/builds,
  (b) the project's existing test suite still passes completely (same results as without the change),
  (c) the breakage needs something SPECIFIC to manifest - a particular interleaving, a crash/fault at a particular point, a multi-step sequence of operations, an unusual input (boundary value, particular type/width/alignment combination, rare code path), or two cooperating sites that each look fine alone. NOT something ordinary use or any existing test would expose at once.
  Each change should look like a plausible mistake or "optimisation"/refactoring a developer could make (off-by-one, wrong comparison, dropped special case, missing lock/flag/re-check, wrong mask, wrong size, reordered steps...). Keep each change small (a few lines). The two changes should use different mechanisms / touch different code paths.

{("ALREADY DONE by earlier rounds - do NOT repeat these mechanisms or anything close to them; pick different code paths, different API entry points, different kinds of input:" + chr(10) + chr(10).join(used) + chr(10)) if used else ""}
For each change k in ({K1}, {K2}) deliver, in the directory {wt}/_seed/{pid}-k/ :
  - patch.diff : `git diff` of the change against the worktree HEAD (only that change; it must apply with `git apply` on a clean checkout of HEAD)
  - demo.py (or demo.sh) : a small self-contained demonstration program that exits 0 on the unchanged tree and exits non-zero (printing what went wrong) with the change applied. It must use the worktree's build (see below), need no network, and run in under 2 minutes.
  - meta.json : {{"property": "{pid}", "summary": "<one line: what the change does>", "needs": "<what specific condition is needed for it to manifest>", "files": [...], "tests_run": "<exact test command(s) you ran and their pass/fail counts with the change applied>"}}

HOW TO BUILD AND TEST in the worktree (python is /venv/bin/python, version 3.12; there is no network):
  cd {wt}
  /venv/bin/python setup.py -q build_ext --inplace        # rebuilds src/_cffi_backend*.so after a change to src/c/_cffi_backend.c (about 5 s). IMPORTANT: setup.py does not track the other files under src/c/ (they are #included): after editing any of those add --force, otherwise you test a stale build. Pure-Python changes under src/cffi need no rebuild
  PYTHONPATH={wt}/src /venv/bin/python -c "import cffi, _cffi_backend; print(cffi.__file__, _cffi_backend.__file__)"   # must print paths inside {wt}
  # tests (ALWAYS with PYTHONPATH={wt}/src so the worktree's code is used, not the installed one):
  PYTHONPATH={wt}/src /venv/bin/python -m pytest -q -p no:cacheprovider --timeout=900 src/c/test_c.py testing/cffi0 testing/cffi1 testing/embedding
  The full suite (`PYTHONPATH={wt}/src /venv/bin/python -m pytest -q -p no:cacheprovider --timeout=900 --continue-on-collection-errors` from {wt}) takes about 12 minutes serially; on the unchanged tree it gives 1981 passed, 96 skipped, 4 xfailed. Do not use pytest-xdist (-n): a few tests are not parallel-safe. While iterating, run the most relevant test files first (e.g. src/c/test_c.py takes 3 s, testing/cffi0/test_parsing.py 2 s); before you finish, each change must have been run (apply one change at a time) against at least `src/c/test_c.py testing/cffi0` plus the testing/cffi1 and testing/embedding files relevant to the code you touched, with the same result as the unchanged tree; the complete suite will be re-run on your patches by me afterwards, so think hard about which existing tests could notice your change. If a change makes any existing test fail, it is not acceptable: refine it so it is only triggered by conditions the tests do not cover.
  Run demo.py as: PYTHONPATH={wt}/src /venv/bin/python demo.py   (write demo.py so it works with that command from any cwd; it may create temp dirs with tempfile and should clean up).

Procedure: read the relevant code, pick two mechanisms, for each: make the change, rebuild, run relevant tests, write demo.py, confirm demo fails with the change and passes without (git stash / git apply -R to compare), save patch.diff, then revert the worktree to clean HEAD (git checkout -- src) before starting the next one. At the end the worktree must be at clean HEAD (except the untracked _seed/ directory and build outputs).

Final answer: a short report listing for each of the two changes: the summary, what it needs to manifest, and the exact test results you observed (with and without the change) - nothing else.""")
