#!/usr/bin/env python3
"""Validate MANIFEST.json and evidence/*.json against the schemas (run with python3-vt)."""
import json, sys, glob, os
import jsonschema
here = os.path.dirname(os.path.dirname(os.path.abspath(__file__)))
ok = True
def check(path, schema):
    global ok
    try:
        jsonschema.validate(json.load(open(path)), json.load(open(schema)))
        print('ok  ', path)
    except Exception as e:
        ok = False
        print('FAIL', path, str(e)[:300])
check(os.path.join(here, 'MANIFEST.json'), '/root/.vp/MANIFEST.schema.json')
m = json.load(open(os.path.join(here, 'MANIFEST.json')))
claimed = {c['property_id'] for c in m['checks']}
na = {c['property_id'] for c in m.get('not_applicable', [])}
props = [json.loads(l)['id'] for l in open(os.path.join(here, 'properties.jsonl'))]
for p in props:
    if (p in claimed) == (p in na):
        ok = False; print('FAIL property', p, 'claimed' if p in claimed else 'neither claimed nor n/a')
for c in m['checks']:
    p = os.path.join(here, c['evidence_file'].replace('/verif/', ''))
    if os.path.exists(p):
        check(p, '/root/.vp/EVIDENCE.schema.json')
    else:
        print('miss', p)
sys.exit(0 if ok else 1)
