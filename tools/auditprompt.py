import json, sys, re
pid = sys.argv[1]
wt = '/tmp/wt/aud_' + pid
for l in open('/verif/properties.jsonl'):
    p = json.loads(l)
    if p['id'] == pid: break
print(f"""You are auditing and strengthening ONE runtime-monitoring check of a verification framework for python-cffi/cffi. The repository under verification is at /repo (READ-ONLY for you: never modify anything under /repo, never run git commands that write there). The framework lives in /verif. Read /verif/vlib/README.md first (framework API), then /verif/props/{pid.lower()}.py (the check you audit), skim /verif/vlib/core.py and /verif/vlib/build.py as needed. Other agents are running on this machine at the same time (load is high): wall-clock timings are noisy.

THE PROPERTY {pid}: {p['title']}
Statement: {p['statement']}
Quantifier: {p['quantifier']['text']}
Why tests cannot settle it: {p['why_tests_cant']}
Anchors: {json.dumps(p['anchors'])}

The check decides this property by running the REAL cffi code (built from the tree the environment variable VERIF_REPO points at, default /repo) on generated / hostile inputs under sanitizers and judging with an oracle or reference model. Earlier experiments showed that such checks miss roughly a third of realistic property-breaking source changes at first, nearly always because the generator never produces the input class / operation / history that the change needs (e.g. only power-of-two sizes, only successful calls and never failing ones, only one way of opening/creating an object, only one of several equivalent API entry points, no nesting, no boundary values, no 'rare' flag). Your job is to find and close such gaps for {pid}.

You have a scratch git worktree of the cffi repository at {wt} (already created and built once). You may edit cffi source files there (and only there) to make experimental property-breaking changes ("self-mutants"). Running `cd /verif && VERIF_REPO={wt} ./check {pid}` rebuilds cffi's C backend from that worktree (sanitized) and runs the check against it; without VERIF_REPO the check runs against the unchanged /repo. After each experiment restore the worktree with `git -C {wt} checkout -- .`.

PROCEDURE
1. Read the property, the check, and the anchored cffi code. Write down (for yourself) which behaviours, input classes, API entry points, flags, error paths and histories inside the property's scope the check never drives or never judges.
2. For the (up to 6) most plausible realistic bugs that would survive the current check - small changes a developer could make that still compile and would pass cffi's own tests - make each one in {wt} (one at a time), run the check against it, and see whether a line starting with VIOLATION appears (exit status 1).
3. Where a mutant is missed, extend /verif/props/{pid.lower()}.py so the check catches it: add the missing INPUT CLASS / operation / oracle in general form (never a special case that recognises your particular mutant). Keep the mechanism strings passed to ctx.violation / rep.bad stable classifier keys (no random values inside), and add counters (ctx.count / rep.stat) for every new input class so that the evidence shows it was exercised.
4. The extended check must NEVER alarm on code where the property holds: run `./check {pid}` with `--seed 0`, `--seed 1`, `--seed 2`, `--seed 3` on the unchanged tree (all must exit 0 and print no VIOLATION line), and `./check {pid} --tier thorough` once (must exit 0 too; it may take several minutes). The oracle may only demand what the property statement states - if correct code legitimately does something your new oracle flags, the oracle is wrong: fix it. Quick tier should stay within roughly 60 s wall (machine is loaded; judge by the work done).
5. If the extended check reports a violation on the UNCHANGED tree, work out which it is: (a) cffi really violates the property - then keep the check as is and report the exact witness (input, call sequence, observed vs expected, and the cffi source lines responsible) to me; do not weaken the check and do not try to fix cffi; or (b) the check demands more than the property states or misrepresents the code - then correct the check and tell me what you corrected.

RULES: Only modify /verif/props/{pid.lower()}.py (plus, if really needed, new helper files under /verif/harness/ or /verif/vlib/ whose names start with '{pid.lower()}_'). Do NOT edit core.py, build.py, other props, MANIFEST.json, known_findings.json, DESIGN.md, anything under /verif/seeded, and do NOT run git commands in /verif. Do not run broad process-killing commands (pkill etc.) and do not delete /verif/.build or /verif/.deps. Keep scratch files under {wt} or /tmp/aud_{pid} and remove them at the end.

Final answer (brief): the gaps you found; for each self-mutant: the diff in one or two lines, whether the original check caught it, and whether the extended check catches it (mechanism string); the new input classes / oracles you added with the counters seen on a quick run; results of the seed sweep and the thorough run on the unchanged tree; any suspected genuine cffi defect with its exact witness; anything you corrected because it was over-demanding.""")
