#!/usr/bin/env python3
"""Regenerate the generated tables of DESIGN.md (between the BEGIN/END markers)
from known_findings.json and seeded/*/meta.json."""
import json, os, re, glob
here = os.path.dirname(os.path.dirname(os.path.abspath(__file__)))
kf = json.load(open(os.path.join(here, 'known_findings.json')))

def esc(s):
    return str(s).replace('|', '\\|').replace('\n', ' ')

out = []
out.append('#### Repaired defects (`fix:` commits in /repo)\n')
out.append('| property | commit | what failed |\n|---|---|---|')
for line in kf['fixed']:
    m = re.match(r'fixed: property=(\S+) (\S+) (.*)', line)
    out.append('| %s | %s | %s |' % (m.group(1), m.group(2), esc(m.group(3))))
out.append('\n#### Recorded findings (not repaired; `KNOWN-FINDING` lines)\n')
out.append('| property | mechanism key | what fails | why not repaired |\n|---|---|---|---|')
for f in kf['findings']:
    out.append('| %s | `%s` | %s | %s |' % (f['property'], f['key'], esc(f['what'])[:400],
                                           esc(f.get('why_not_fixed', ''))[:250]))
findings = '\n'.join(out)

rows = []
for d in sorted(glob.glob(os.path.join(here, 'seeded', '*'))):
    mp = os.path.join(d, 'meta.json')
    if not os.path.exists(mp):
        continue
    m = json.load(open(mp))
    v = m.get('verified', {})
    caught = ', '.join(v.get('caught_by', [])) or 'MISSED'
    mech = ''
    for c, r in v.get('checks', {}).items():
        if r.get('mechanisms'):
            mech = r['mechanisms'][0].split(':', 1)[0].replace('mechanism=', '')
            mech = re.sub(r'^mechanism=', '', r['mechanisms'][0]).split(': ')[0]
            break
    rows.append('| %s | %s | %s | %s | %s | %s |' % (
        os.path.basename(d), m.get('property'), esc(m.get('summary', ''))[:260],
        esc(m.get('needs', ''))[:220], caught + (' (`%s`)' % mech[:70] if mech else ''),
        esc(m.get('suite_confirmed', 'agent-run only'))[:60]))
seeded = ('| id | property | change | needs, to manifest | caught by (first mechanism) | '
          'repository test suite with the change |\n|---|---|---|---|---|---|\n' + '\n'.join(rows))

p = os.path.join(here, 'DESIGN.md')
s = open(p).read()
for name, text in (('FINDINGS', findings), ('SEEDED', seeded)):
    b, e = '<!-- BEGIN %s -->' % name, '<!-- END %s -->' % name
    if b in s:
        s = s[:s.index(b) + len(b)] + '\n' + text + '\n' + s[s.index(e):]
open(p, 'w').write(s)
print('tables regenerated: %d fixed, %d findings, %d seeded' % (len(kf['fixed']), len(kf['findings']), len(rows)))
