# Table consumed by tools/mkmanifest.py
HOOK_COMMITS = []
NOTES = ("All checks: ./check <ID> --tier quick|thorough [--seed N | VERIF_SEED] [--replay FILE]. "
         "Exit 0 held on everything explored, 1 + VIOLATION line, 2 + INCONCLUSIVE line (monitor not reached / infrastructure). "
         "known_findings.json lists recorded defects by mechanism; see DESIGN.md.")
NA = {}

C('C04', 'differential oracle: Python big-int model of C conversion + gcc (T)x probe, ASan/UBSan backend',
  'Exploration: every integer/char target type x boundary lattice up to 2**130, floats near every 2**k, all bytes, code points, pointer cdata; each result compared with the model (and with gcc for in-range inputs). Held on the cases generated, not proved.',
  'Trusts gcc for in-range conversions and the Python model elsewhere; only x86-64 Linux observed.')
