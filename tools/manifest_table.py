# Table consumed by tools/mkmanifest.py
HOOK_COMMITS = []
NOTES = ("All checks: ./check <ID> --tier quick|thorough [--seed N | VERIF_SEED] [--replay FILE]. "
         "Exit 0 held on everything explored, 1 + VIOLATION line, 2 + INCONCLUSIVE line (monitor not reached / infrastructure). "
         "known_findings.json lists recorded defects by mechanism; see DESIGN.md.")
NA = {}

C('C04', 'differential oracle: Python big-int model of C conversion + gcc (T)x probe, ASan/UBSan backend',
  'Exploration: every integer/char target type x boundary lattice up to 2**130, floats near every 2**k, all bytes, code points, pointer cdata; each result compared with the model (and with gcc for in-range inputs). Held on the cases generated, not proved.',
  'Trusts gcc for in-range conversions and the Python model elsewhere; only x86-64 Linux observed.')

C('C02', 'differential + byte-image monitor against gcc-built accessors; UBSan/ASan reports in the bitfield code are deciding',
  'Exploration: every (integer type, width 1..8*sizeof) pair at several bit positions x boundary/random ints on random storage; accept/reject vs range model, read-back, bits outside the C-determined storage mask unchanged, rejected store leaves memory unchanged, value read == value gcc code reads.',
  'Trusts gcc bitfield code generation as the C view; x86-64 gcc bitfield ABI branch only.')
C('C03', 'range-model monitor over 12 separately implemented store paths, C-side recorder in a compiled helper module, before/after byte images',
  'Exploration: 47 integer types (standard, stdint, _Bool, 3 enums) x 12 store paths x boundary lattice up to 2**100 and random ints; accepted iff in range, exact read-back / value received by C, OverflowError and unchanged memory on rejection, error value for out-of-range callback results.',
  'Trusts the gcc-compiled recorder functions; type ranges from a table that C06 checks against the compiler.')

C('C05', 'differential oracle: compiled C conversions (ctypes.c_float/struct) and C-side bit recorders; bit-exact images of valid x87 encodings for long double',
  'Exploration: float/double/complex over random bit patterns, edges and float32 rounding boundaries through 10 store paths; long double over random valid 80-bit encodings through 8 copy paths; stored bits and bits received by C compared with the C conversion.',
  'Trusts ctypes/struct double->float conversion and gcc; NaN payloads and long double padding not compared; invalid x87 encodings not generated.')
C('C15', 'encode/decode unit model over generated strings; byte images of fixed arrays before/after assignment; ASan red zones decide over-long writes',
  'Exploration: 6 character types x round-trip / string(maxlen) with embedded zeros on arrays and pointers / unpack(n) / short-string assignment through 4 paths with array lengths around the string length, over BMP, astral and lone-surrogate text and all byte values.',
  'UTF-16 model assumes no high surrogate directly before a low one; explicit maxlen beyond an array is the caller\'s bound (not generated).')

C('C18', 'differential oracle (second cffi path: element-wise indexing) on random memory, every misalignment; ASan decides over-reads',
  'Exploration: 38 item types (all integer fast paths, _Bool with bytes>=2, char and wide chars incl. surrogates and out-of-range units, floats, long double, complex, pointers, enums, structs, arrays) x misalignment 0..7 x n up to the end of the malloc block; value or exception class compared.',
  'cdata elements compared by type and address/value bytes. Known finding: char16_t surrogate pairs are joined by unpack only.')

C('C16', 'history + byte-array reference model in lock-step; whole backing store compared after every operation; ASan red zones behind owned arrays',
  'Exploration: random 60-operation histories (index/slice read and write with in-range, boundary and >64-bit indexes, slices with step/missing bounds, writes through slices, slice assignment from 5 source kinds with right/wrong counts, pointer +/-/difference, (p+i)[j], addressof, offsetof, owning-pointer indexes) over 13 element kinds; accept/reject, exception class, aliasing and bytes compared with the model.',
  'Offsets bounded to |i*sizeof| < 2**62; non-integer keys not generated.')

C('C19', 'history + bytearray reference model in lock-step over three kinds of backing memory; ASan (incl. memcpy-param-overlap) deciding',
  'Exploration: random 50-operation histories over bytearray / array.array / cdata memory: buffer windows, index and slice reads with arbitrary bounds, item/slice assignment from 5 source kinds incl. overlapping views and wrong lengths, comparisons, from_buffer length/aliasing/fixed-size/require_writable, memmove over all dst/src kinds and overlap offsets; every read and the whole memory compared with the model after each step.',
  'buffer[i] returns 1-byte bytes by design; cdata objects as slice-assignment sources are outside the stated class (see DESIGN.md findings table).')

C('C01', 'differential oracle: gcc probe (sizeof/_Alignof/offsetof/bitfield storage image) vs cffi on the ASan/UBSan backend; clang second opinion on the thorough tier',
  'Exploration: random struct/union declarations over all listed member kinds incl. anonymous/nested aggregates, bitfields of every explicit integer type and width 0..width(type), zero-width and unnamed bitfields, flexible arrays, packed/pack=N; size, alignment, every named offset and every bitfield storage image compared with the compiler; no declaration may be rejected.',
  'Trusts gcc as the platform compiler; aggregates always have a named member; x86-64 SysV branch only.')
C('C17', 'runtime monitor of the eq=>hash implication and differential oracles (address comparison; Python value obtained through memory) over generated pairs',
  'Exploration: pairs over primitive cdata of every type/value class (values biased to be numerically equal across types, -0.0, NaN, 2**53+1), pointer/array/struct/union/function cdata at shared and distinct addresses, and plain Python values; all six comparison operators and hash compared.',
  'long double has no Python value (implication only); NaN hashes are identity-based in CPython and not compared.')

C('C20', 'three-path differential (ffi.new initializer / whole-object assignment / leaf-wise assignment into Python-allocated zero memory) on generated aggregates; ASan 0xbe malloc fill exposes missing zero-fill',
  'Exploration: aggregates from the C01 generator (bitfields, anonymous and nested members, arrays, unions) and arrays of them x random nested initializers (short lists/tuples, dicts, bytes, cdata copies, union sequences, invalid ones); flexible-array structs: allocation size, sizeof(p[0]), bytes vs assignment into a same-length target.',
  'long double members are not generated (their 6 padding bytes are not defined); list-order across anonymous members only compared between new and assignment. Known finding: over-long assignment to an owned flexible array member overflows.')

C('C21', 'stateful reference model (reachability + expected destructor/free counts) driven in lock-step with random histories; callbacks monitored at the moment they run; ASan decides use-after-free/double free',
  'Exploration: random 40-operation histories over ffi.new objects, p[0] aliases, ffi.gc wrappers (chains, reference cycles through the destructor, gc(p,None)), release/with/re-release, new_allocator allocations, from_buffer exports of a resizable bytearray, handles; gc.collect() after every step on half of the histories; exactly-once, never-while-reachable, export-lock and handle identity/distinctness checked against the model.',
  'Reachability model assumes CPython refcounting and cffi\'s documented keep-alive edges; releasing an object that live aliases/wrappers still use is not generated (user error).')

C('C27', 'history + structural-key model over weakref-tracked ctypes requested through independent paths; quiescent-point invariant on the backend unique_cache found via gc.get_objects()',
  'Exploration: random 80-step histories of typeof(str) on 3 in-line FFIs and the C parser, direct backend constructors, reference drops, FFI deletion, gc.collect(), rebuild-after-death through two paths; after every step same key <=> same object over all live ctypes; unique_cache has no dead entry and exactly one entry per live non-aggregate ctype.',
  'Key computed from public attributes only; harness structs are opaque; unique_cache discovered heuristically (bytes keys, weakref values).')
C('C32', 'determinism across fresh processes/hash seeds + icontract postcondition on ffiplatform.flatten (explicit inverse parser) + recorded CRC32 inputs decoded back to the inputs',
  'Exploration: random (cdef list incl. include(), preamble, nested keyword) inputs with equivalent respellings (must share key/name) and 20 kinds of near-miss neighbours (must differ); hashed key recorded by wrapping binascii.crc32 and decoded back; names compared over 6 processes with different PYTHONHASHSEED.',
  'Texts are NUL-free except for the probe of the recorded finding; keyword arguments = Extension kwds + tag + engine choice.')

C('C35', 'reference model + icontract postconditions on flags_from_pkgconfig/merge_flags, driven through a stub pkg-config binary first on PATH',
  'Exploration: random package lists and token sequences (prefixed, look-alike and other tokens, mixed whitespace, empty and very long outputs) and 9 kinds of failing runs (exit status, signal, undecodable output, backslashes, missing/non-executable binary); every keyword list compared with the generator-structured expectation and the text model; failures must raise PkgConfigError only.',
  'Whitespace = ASCII whitespace as pkg-config emits it (tokens with non-ASCII whitespace are only counted); the stub answers exactly the command lines cffi is documented to use.')

C('C24', 'byte-level differential: command line (console script, python -m, in-process run()) vs FFI.emit_c_code() in the same environment/locale',
  'Exploration: random cdefs/preludes (non-ASCII, CR/CRLF, odd line separators), module names with packages, both subcommands, 8 styles of binding the FFI in exec-python scripts (direct, callable, --ffi-var, subclass, helper modules), file and stdout output, 4 locale environments; exit status and bytes compared; the __main__ block must not run.',
  'read-sources inputs are compared after universal-newline reading (what the tool and any Python text read do); cases whose reference emit_c_code itself raises are vacuous and counted.')

C('C11', 'differential oracle (second cffi path): in-line FFI vs imported emit_python_code() module on generated cdefs, plus dlopen() of a gcc-built library defining the declared functions/globals',
  'Exploration: generated cdefs (typedef chains, nested/anonymous aggregates with bitfields, enums, constants, functions, globals, FILE) compared item by item: type identity for non-aggregates, structural description for aggregates, constant values, list_types(), function/global types and addresses, values read and writes seen on the other side.',
  'Sanitizer reports in the module-decoding path are observations only. Known findings: FILE in list_types(); in-line display name of typedef\'ed named aggregates.')

C('C10', 'differential oracle: gcc probe (sizeof, signedness, every enumerator) vs cffi in in-line, out-of-line ABI and compiled API mode; 5-line model for ffi.string()',
  'Exploration: generated enums in 4 declaration forms with implicit runs, literals in all bases/suffixes, negative values, character constants, references to earlier enumerators/macros, values on the int/unsigned/long/unsigned long boundaries, duplicates; values, size, signedness, elements/relements and ffi.string of declared/undeclared values compared in 3 modes.',
  'Value sets are kept inside one 64-bit type; implicit increments never cross a type limit (gcc rejects those). Known finding: negated unsigned-typed literals.')
C('C31', 'differential oracle: decorated vs undecorated cdef through the real parser (declarations, constants, emit_c_code/emit_python_code bytes, in-line facts); icontract postcondition on cparser._preprocess',
  'Exploration: generated cdefs (incl. API-mode constructs) decorated at token boundaries with comments of both kinds, white-space runs (incl. FF/VT/CR/CRLF), backslash-newline inside #define lines, line directives with hostile file names; failing decorations are reduced to the culprit insertion(s) that define the mechanism key.',
  '13 exotic insertion classes are recorded findings (all raise CDefError; no silent change of meaning was observed).')

C('C09', 'differential oracle: gcc evaluates the same expression text in context; a C-typing evaluator only filters out C-undefined expressions and classifies disagreements; icontract on _c_div/_parse_constant',
  'Exploration: depth-bounded expression trees over decimal/octal/hex literals with every u/l suffix, character constants with escapes, unary +/- and + - * / % << >> & | ^, placed as array lengths, bitfield widths, enumerators, #define and static const values; values compared in in-line, emitted ABI module and compiled API module.',
  'Evaluator vs gcc disagreement makes the run inconclusive (0 observed); initialisers stay in the declared type\'s range. Known finding: unsigned-typed operands.')

C('C23', 'determinism across fresh processes/hash seeds (sha256 of generated bytes), icontract postcondition on recompiler._make_c_or_py_source (flag <=> bytes changed), fault enumeration of the write path (sys.monitoring LINE failpoints, short writes, strace kill injection per syscall)',
  'Exploration + fault enumeration: generated cdef specs (API/ABI, include(), extern "Python", embedding, non-ASCII and CR/CRLF sources) emitted through 4 entry points in 6 processes with different PYTHONHASHSEED and histories; idempotence steps over 7 kinds of pre-existing targets with mtime/inode; every LINE event of the write path, 47 short-write offsets and every syscall of the write window (strace inject KILL) as crash points: target must be exactly old or exactly new content.',
  'The crash-point enumeration is complete for each sampled regeneration (listed in the evidence); the sampling of cdefs around it is exploration. Linux/ext4 rename semantics.',
  category='fault_enumeration')
C('C30', 'fuzzing with an exception-class oracle (Python parser) and ASan/UBSan + crash monitoring (C parser via typeof on compiled FFIs) plus a libFuzzer target on parse_c_type.c rebuilt from the tree',
  'Exploration: grammar-generated declarations and type strings, token-level and byte-level mutants, cffi-specific trivia; Python side: any exception outside the documented set is a violation keyed by (type, raising function); C side: 40k type strings on empty and populated contexts under ASan/UBSan, inputs around the 1200-opcode and recursion limits, lone surrogates; libFuzzer 8 s (120 s thorough).',
  'Resource blow-ups (MemoryError, RecursionError, watchdog) are counted separately, not judged. 13 recorded findings: non-cffi exception classes escaping from specific sites.')

C('C07', 'differential oracle (in-line pycparser-based parser vs C parser of an emitted module with the same declarations); disagreements classified by syntactic repairs re-tested on the real parsers and by gcc -fsyntax-only as independent well-formedness oracle',
  'Exploration: per random declaration context ~700 grammar-generated type strings (specifier permutations, qualifiers anywhere, number bases, named constants, function pointers with names/varargs/calling conventions, redundant grouping) and token-level near-miss mutants; both reject or both accept with the same meaning (object identity for non-aggregates).',
  'Undeclared tags are not generated; exception classes are C30\'s business. 17 recorded finding classes: the two parsers accept different supersets of the common grammar; a disagreement on a well-formed generated string that no recorded syntactic class explains is still a violation.')

C('C26', 'event log (one lock, logical clock) + offline checker over scenarios of both implementations under yield injection (sys.monitoring LINE events in FFI.init_once, yielding tag __hash__/__eq__, sleeping initializers, 1 us switch interval); TSan build on a sample of the C implementation',
  'Exploration: scenarios of 2-4 threads x 1-3 tags x 1-3 rounds with scripted succeeding/raising/sleeping initializers on cffi.FFI and _cffi_backend.FFI; checker per tag: no overlapping initializers, at most one normal completion, every normal return carries it, nothing starts after it, own exception propagates and is not cached, every call returns; deadlock decided on logical evidence. Evidence lists distinct interleaving signatures and observed raise-vs-success races.',
  'All interleavings are not enumerated (no model checking in this family); TSan reports decide only inside ffi_init_once.')

C('C22', 'value-transfer monitor over 7 call paths + event log of tagged errno values across Python and foreign threads (ASan build), repeated on the TSan build where a race on the errno save slot is deciding',
  'Exploration: single-thread transfers of boundary/random values through API, libffi, in-line ABI, callback, extern "Python" and global-variable-fetch paths with Python activity that changes the real errno in between; multi-thread runs of 2-4 Python threads + 0-3 pthreads with values tagged by thread identity under a 1 us switch interval and random yields: a thread only ever observes its own latest value; the C driver checks errno assigned inside callbacks run on foreign threads.',
  'gcc-compiled helper functions read/write the real errno. TSan decides only for frames at the errno slot.')
C('C36', 'event log + offline checker of callbacks invoked from pthreads Python did not create (waves, scripted exit delays) under concurrent Python-thread activity; ASan/UBSan deciding for crashes/use-after-free, TSan as observation',
  'Exploration: scenarios of 2-5 waves of 1-12 foreign threads x 0-50 calls through ffi.callback or extern "Python", with GC / callback creation / C calls on 0-2 Python threads; per foreign thread: stable thread ident, threading.local counter 0,1,2,... (state persists), never another thread\'s data, exactly one event per scripted call, process survives.',
  'Thread-state validity is observed behaviourally; the known zombie-list fast-path race reported by TSan is an observation. Interpreter shutdown while foreign threads still call back is outside the statement (CPython limitation).')

C('C06', 'exhaustive enumeration of the finite primitive-name set with a gcc oracle (sizeof/_Alignof/signedness/class/range) and seven resolution paths that must return the same ctype object; ASan/UBSan children',
  'Exhaustive over every key of ALL_PRIMITIVE_TYPES, PRIMITIVE_TO_INDEX, COMMON_TYPES and all orderings of every ISO specifier multiset, plus keyword sequences and one-character mutants of table identifiers as hostile neighbourhood; facts compared with gcc, identity across in-line, C parser, out-of-line ABI and compiled API modules, opcode-index sweep through primitive_name[].',
  'exhaustive: true for the name set on this platform; plain char follows cffi\'s character semantics; parser strictness on non-table spellings is counted, not judged.')
C('C13', 'four-way differential (API wrapper, libffi via addressof, in-line dlopen, out-of-line ABI dlopen) on generated C functions that fold arguments into the result, write through pointers and set errno; ASan backend',
  'Exploration: 40 generated signatures per module over all integer sizes, _Bool, char, float, double, pointers, structs by value/return, variadics x 40 argument tuples (in-range, boundary, out-of-range, wrong type, list/bytes/NULL/wrongly typed cdata for pointers); return value (float bit patterns), exception class, buffers after the call and errno must agree across the four paths.',
  'Signatures that hit a reproduced defect of the system libffi 3.4.4 (also via ctypes) are not generated; exception messages are not compared.')
C('C29', 'history + shadow model of live callbacks: address distinctness at every creation and periodic full re-scans, binding checked by calling through cdata, a compiled C caller and the raw address; weakref collectability; ASan backend in one long-lived process',
  'Exploration: create/drop/churn histories up to 20000 callbacks alive crossing every closure-page growth boundary, LIFO/FIFO/random reuse of freed closures, failing creations after closure allocation, callbacks in reference cycles; each call must run exactly its own function with its own signature and result.',
  'Closure memory is mmapped (not under ASan red zones): distinctness is decided by the address monitor.')

C('C08', 'round-trip monitor on both FFIs with an independent oracle: the expected ctype is built with the backend constructors from a small interpreter of the declarator text; gcc compiles getctype(T,\'v\') declarations and prints sizeof',
  'Exploration: 100 distinct ctypes per declaration context (C07 generator) x plain name + 8 declarator suffixes from a fixed list and a random abstract-declarator grammar, on the in-line FFI and the C-parser FFI of the emitted module; typeof(getctype(T)) is T, typeof(getctype(T,x)) is the constructor-built object; one gcc probe per context for declarations and sizes.',
  'Types whose own source string gcc rejects are not given to gcc. Known finding: complex ctypes carry cffi-internal typedef names.')

C('C14', 'record-and-compare monitor inside generated callbacks / extern "Python" functions invoked by compiled C trampolines, over scripted failure scenarios; sys.unraisablehook and onerror observed; ASan backend',
  'Exploration: 30 random signatures per module (all integer sizes, _Bool, char, float, double, pointers, structs by value, void) x {ffi.callback, extern "Python"} x {normal, raises, unconvertible result} x {no error value, error=, onerror returning value/None/raising}; received arguments == passed arguments, result returned unchanged, C caller receives the declared error value or onerror\'s value, nothing escapes into the caller, exactly one error report.',
  'Values are exactly representable in their C types; exception containment is observed at the Python caller of the trampoline.')

C('C12', 'three compiled modules per generated C source: agreement (C helper functions compiled in the same source report sizeof/offsetof/addresses; Python model of arithmetic bodies; C getters/setters for globals), single-point cdef mutations that must raise on use, and the same mutations under \'...\' that must silently take the compiler\'s layout/values',
  'Exploration: per module 16 structs, 8 #define/static const constants, 4 enums, 10 functions, 6 globals; mutation kinds: field retyped within its class, removed, swapped, array resized, constant value changed, enumerator changed; a mutation must be detected iff it changes an offset, a field size or the total size; unmutated neighbours must stay usable.',
  'Layout-change expectation from a natural-alignment model cross-checked against the compiler in the agreeing module; field-size mutations are not judged under \'...\' (cffi still checks a field\'s own size there).')
C('C25', 'identity-encoding monitor on real generated modules (each declared name resolves to its own entry: value/size encodes the index) with hostile identifier sets, plus a stand-alone ASan/UBSan harness around search_sorted() of the tree\'s parse_c_type.c compared with a linear scan (libFuzzer on the thorough tier)',
  'Exploration: 60 modules per run (compiled API and out-of-line ABI, include() pairs) with 1-400 names per kind grown by prefix/extension/case/ordering-border mutations; every declared global, typedef, struct/union tag and enum tag is looked up through lib attributes, integer_const, def_extern, typeof in several spellings, and about two undeclared neighbours per name must be rejected; harness: 200 sorted tables, all present names and 10x absent ones, all subsets of size <= 3 of a 30-name universe.',
  'The proof over all identifier sets is out of reach of this technique family (exploration only).')

C('C33', 'three-way differential: set_source()+compile() vs ffi.verify() with the CPython engine vs verify(force_generic_engine=True) on the same generated (cdef, C source) pairs',
  'Exploration: pairs from the C12 agreement generator; exposed name sets, constants, enumerators with ffi.string, struct size/alignment/offsets, function results and exception classes on in-range, out-of-range and wrongly typed argument tuples, global read/write observed by C getters/setters must be identical across the three builds.',
  'Only features verify() supports are generated; messages are not compared.')

C('C34', 'identity and layout monitors over generated include() graphs (chains, diamonds, fans) in in-line, out-of-line ABI and compiled API mode, against a flat FFI that received the same cdefs without include(); icontract postcondition on Parser.include (model objects shared)',
  'Exploration: 2-4 FFIs per graph where later cdefs are forced to use earlier typedefs/structs/unions/enums/constants; every included declaration must be the same ctype object through every FFI of the graph, layouts equal the flat FFI, constants/enumerators equal, and in API mode functions, globals and constants of included modules are reachable (and writable) through the including lib.',
  'Sanitizer reports are observations. Six recorded findings: included enums are re-created in out-of-line/API modules, included #define constants are not usable in type strings there, anonymous aggregate names collide across included ABI modules (wrong layout / crash).')

C('C37', 'history monitor with a value model before the close and an error-demand after it, on private copies of a gcc-built library (verified unmapped through /proc/self/maps) in in-line and out-of-line ABI mode; child survival (ASan, crash attribution by breadcrumb) is part of the verdict',
  'Exploration: random histories of 0-25 accesses before ffi.dlclose() (functions fetched or not, scalar/array/struct globals read and written, addressof) and 6-25 after it: reading/writing any global, fetching an unfetched function, addressof of an untouched name must raise; closing again must be harmless; a never-closed RTLD_GLOBAL decoy copy makes accidental dlsym failures impossible.',
  'Any exception except SystemError/MemoryError counts as refusing; re-fetching names already cached before the close is outside the statement (counted).')

C('C28', 'stub harness: the real _embedding.h compiled as two libraries against a stubbed CPython API, with logging/yield-injection wrapper macros around every CAS and mutex operation; event log + offline checker + logical deadlock detector; one process per scenario; TSan build as observation',
  'Exploration: scenarios of 1-3 threads x 1-2 libraries x init behaviour {ok, fails, calls its own extern function, calls the other library} x 1-3 first calls per thread in normal and heavy-delay mode; Py_InitializeEx <= 1, init code per library <= 1, no extern-Python function of a library on another thread before its init finished, right results (0 after a failed init), every call returns; evidence lists distinct interleaving signatures.',
  'CPython is stubbed (GIL = recursive mutex); all schedules are not enumerated; real-process embedding runs are not part of the check.')
