# Table consumed by tools/mkmanifest.py
HOOK_COMMITS = []
NOTES = ("All checks: ./check <ID> --tier quick|thorough [--seed N | VERIF_SEED] [--replay FILE]. "
         "Exit 0 held on everything explored, 1 + VIOLATION line, 2 + INCONCLUSIVE line (monitor not reached / infrastructure). "
         "known_findings.json lists recorded defects by mechanism; see DESIGN.md.")
NA = {}

C('C04', 'differential oracle: Python big-int model of C conversion + gcc (T)x probe, ASan/UBSan backend',
  'Exploration: every integer/char target type x boundary lattice up to 2**130, floats near every 2**k, all bytes, code points, pointer cdata; each result compared with the model (and with gcc for in-range inputs). Held on the cases generated, not proved.',
  'Trusts gcc for in-range conversions and the Python model elsewhere; only x86-64 Linux observed.')

C('C02', 'differential + byte-image monitor against gcc-built accessors; UBSan/ASan reports in the bitfield code are deciding',
  'Exploration: every (integer type, width 1..8*sizeof) pair at several bit positions x boundary/random ints on random storage; accept/reject vs range model, read-back, bits outside the C-determined storage mask unchanged, rejected store leaves memory unchanged, value read == value gcc code reads.',
  'Trusts gcc bitfield code generation as the C view; x86-64 gcc bitfield ABI branch only.')
C('C03', 'range-model monitor over 12 separately implemented store paths, C-side recorder in a compiled helper module, before/after byte images',
  'Exploration: 47 integer types (standard, stdint, _Bool, 3 enums) x 12 store paths x boundary lattice up to 2**100 and random ints; accepted iff in range, exact read-back / value received by C, OverflowError and unchanged memory on rejection, error value for out-of-range callback results.',
  'Trusts the gcc-compiled recorder functions; type ranges from a table that C06 checks against the compiler.')
