#!/usr/bin/env python3
"""Run the repository's own test suite on each seeded change (scratch worktree,
removed afterwards) and record the result in seeded/<id>/meta.json['suite_confirmed']."""
import sys, os, json, subprocess, shutil, concurrent.futures as cf
VERIF = os.path.dirname(os.path.dirname(os.path.abspath(__file__)))
def one(name):
    d = os.path.join(VERIF, 'seeded', name)
    mp = os.path.join(d, 'meta.json')
    meta = json.load(open(mp))
    if meta.get('suite_confirmed'):
        return name, meta['suite_confirmed']
    wt = '/tmp/wt/suite_%s' % name
    subprocess.run(['git', '-C', '/repo', 'worktree', 'add', '-q', '--detach', wt, 'HEAD'])
    try:
        r = subprocess.run(['git', 'apply', os.path.join(d, 'patch.diff')], cwd=wt)
        if r.returncode:
            return name, 'patch does not apply'
        subprocess.run(['/venv/bin/python', 'setup.py', '-q', 'build_ext', '--inplace'], cwd=wt,
                       stdout=subprocess.DEVNULL, stderr=subprocess.DEVNULL)
        env = dict(os.environ, PYTHONPATH=wt + '/src')
        r = subprocess.run(['/venv/bin/python', '-m', 'pytest', '-q', '-p', 'no:cacheprovider',
                            '--timeout=900', '--continue-on-collection-errors'], cwd=wt, env=env,
                           stdout=subprocess.PIPE, stderr=subprocess.STDOUT)
        last = r.stdout.decode(errors='replace').strip().splitlines()[-1]
        meta = json.load(open(mp))
        meta['suite_confirmed'] = last
        json.dump(meta, open(mp, 'w'), indent=1)
        return name, last
    finally:
        subprocess.run(['git', '-C', '/repo', 'worktree', 'remove', '--force', wt])
        shutil.rmtree(wt, ignore_errors=True)
names = sys.argv[1:] or sorted(os.listdir(os.path.join(VERIF, 'seeded')))
with cf.ThreadPoolExecutor(3) as ex:
    for n, r in ex.map(one, names):
        print(n, r, flush=True)
